// C19: nd_map invokes the callback exactly once for every index tuple inside the
// box and for no other tuple.
// Generated: extent vectors (exhaustive up to a bound per dimensionality, random
// larger ones). Oracle: multiset of visited tuples == the box, built independently.
#include "common.hpp"

#include <covfie/core/utility/nd_map.hpp>

namespace {
using namespace vf;

struct Case {
    std::vector<uint64_t> ext;
    json to_json() const { return json{{"extents", ext}}; }
    static Case from_json(const json & j) { return Case{j.at("extents").get<std::vector<uint64_t>>()}; }
};

// one long axis / others short, boundary values, under a cell cap
rc::Gen<Case> gen_case(size_t N)
{
    return rc::gen::map(rc::gen::container<std::vector<uint64_t>>(N, rc::gen::weightedOneOf<uint64_t>({{3, in_range<uint64_t>(0, 4)}, {3, in_range<uint64_t>(2, 12)}, {1, in_range<uint64_t>(13, 70)}})), [](std::vector<uint64_t> e) {
        uint64_t cells = 1;
        for (auto & x : e) {
            if (cells * (x ? x : 1) > 60000) {
                x = 1 + x % 3;
            }
            cells *= (x ? x : 1);
        }
        return Case{e};
    });
}

template <class T, size_t N>
struct P {
    using tuple_t = covfie::array::array<T, N>;
    static std::string name()
    {
        return std::string("nd_map/T=") + (std::is_same_v<T, size_t> ? "size_t" : std::is_same_v<T, unsigned> ? "unsigned" : std::is_same_v<T, uint8_t> ? "uint8" : std::is_same_v<T, uint16_t> ? "uint16" : "int") + "/N=" +
               std::to_string(N);
    }
    // a box far too large to enumerate: the callback must be invoked (first with the all-zero tuple);
    // the enumeration is cut short by throwing out of the callback
    static Verdict run_huge(const Case & c)
    {
        tuple_t s;
        for (size_t k = 0; k < N; ++k) {
            s[k] = static_cast<T>(c.ext[k]);
        }
        struct Stop {};
        bool called = false, zero = true;
        try {
            covfie::utility::nd_map<tuple_t>(
                [&](tuple_t t) {
                    called = true;
                    for (size_t k = 0; k < N; ++k) {
                        zero = zero && t[k] == T(0);
                    }
                    throw Stop{};
                },
                s
            );
        } catch (const Stop &) {
        }
        Hasher h;
        h.vec(c.ext).pod(uint8_t(1));
        label("huge box: first callback only");
        record(name(), true, h.h, [&] { return c.to_json(); });
        if (!called) {
            return std::string("the callback was never invoked for a non-empty box");
        }
        if (!zero) {
            return std::string("the first tuple passed to the callback is not the all-zero tuple");
        }
        return std::nullopt;
    }
    static Verdict run(const Case & c)
    {
        tuple_t s;
        {
            // boxes beyond 2^22 cells are only probed for their first callback
            long double vol = 1;
            for (auto e : c.ext) {
                vol *= (long double)e;
            }
            if (vol > 4194304.0L) {
                return run_huge(c);
            }
        }
        uint64_t cells = 1;
        bool all_equal = true, has0 = false, has1 = false;
        for (size_t k = 0; k < N; ++k) {
            s[k] = static_cast<T>(c.ext[k]);
            cells *= c.ext[k];
            all_equal = all_equal && c.ext[k] == c.ext[0];
            has0 = has0 || c.ext[k] == 0;
            has1 = has1 || c.ext[k] == 1;
        }
        // independent model of the box: mixed-radix rank -> visit count
        std::vector<uint32_t> seen(cells, 0);
        uint64_t calls = 0;
        std::optional<std::string> bad;
        // the callback is a generic lambda that overwrites its argument after recording it: whatever it does to the
        // tuple it was handed must not influence the iteration (callers may take the tuple by forwarding reference)
        struct TooMany {};
        try {
        covfie::utility::nd_map<tuple_t>(
            [&](auto && t) {
                struct Scribble {
                    std::remove_reference_t<decltype(t)> & r;
                    ~Scribble()
                    {
                        if constexpr (!std::is_const_v<std::remove_reference_t<decltype(t)>>) {
                            for (size_t k = 0; k < N; ++k) {
                                r[k] = static_cast<T>(~T(0));
                            }
                        }
                    }
                } scribble{t};
                ++calls;
                if (calls > cells + 8) {
                    throw TooMany{};   // cut a runaway iteration short; reported below
                }
                uint64_t rank = 0;
                for (size_t k = 0; k < N; ++k) {
                    if (t[k] < T(0) || uint64_t(t[k]) >= c.ext[k]) {
                        if (!bad) {
                            std::ostringstream os;
                            os << "callback received a tuple outside the box: component " << k << " = " << (long long)t[k];
                            bad = os.str();
                        }
                        return;
                    }
                    rank = rank * c.ext[k] + uint64_t(t[k]);
                }
                seen[rank]++;
            },
            s
        );
        } catch (const TooMany &) {
            return "callback invoked more than " + std::to_string(cells) + " times (the box has that many tuples)";
        }
        // further traversals of the same box, each with the same visit-count model:
        //  (a) callbacks that return a value (std::function<void(Tuple)> discards it: a falsy or truthy result must not
        //      influence the iteration);
        //  (b) a callback that itself iterates over another box of the same tuple type (a stencil around each cell):
        //      the inner traversals must be complete and must not disturb the outer one.
        auto rank_of = [&](const tuple_t & t, const std::vector<uint64_t> & ext) -> int64_t {
            uint64_t rank = 0;
            for (size_t k = 0; k < N; ++k) {
                if (t[k] < T(0) || uint64_t(t[k]) >= ext[k]) {
                    return -1;
                }
                rank = rank * ext[k] + uint64_t(t[k]);
            }
            return int64_t(rank);
        };
        std::optional<std::string> bad2;
        auto verdict_of = [&](const char * what, uint64_t n, const std::vector<uint32_t> & sv, uint64_t want) -> std::optional<std::string> {
            if (n != want) {
                return std::string(what) + ": callback invoked " + std::to_string(n) + " times, box has " + std::to_string(want) + " tuples";
            }
            for (uint64_t r = 0; r < want; ++r) {
                if (sv[r] != 1) {
                    return std::string(what) + ": tuple of rank " + std::to_string(r) + " visited " + std::to_string(sv[r]) + " times";
                }
            }
            return std::nullopt;
        };
        if (!bad && cells <= 65536) {
            for (unsigned variant = 0; variant < 4 && !bad2; ++variant) {
                std::vector<uint32_t> seen2(cells, 0);
                uint64_t calls2 = 0;
                auto body = [&](const tuple_t & t) {
                    if (++calls2 > cells + 8) {
                        throw TooMany{};
                    }
                    int64_t r = rank_of(t, c.ext);
                    if (r < 0) {
                        bad2 = std::string("value-returning callback received a tuple outside the box");
                    } else {
                        seen2[size_t(r)]++;
                    }
                };
                try {
                    switch (variant) {
                        case 0: covfie::utility::nd_map<tuple_t>([&](tuple_t t) { body(t); return false; }, s); break;
                        case 1: covfie::utility::nd_map<tuple_t>([&](tuple_t t) { body(t); return int(calls2 - 1); }, s); break;   // 0 on the first call
                        case 2: covfie::utility::nd_map<tuple_t>([&](tuple_t t) { body(t); return true; }, s); break;
                        default: covfie::utility::nd_map<tuple_t>([&](tuple_t t) { body(t); return (calls2 % 2) ? static_cast<const void *>(nullptr) : static_cast<const void *>(&calls2); }, s); break;
                    }
                } catch (const TooMany &) {
                    return std::string("value-returning callback invoked more than ") + std::to_string(cells) + " times";
                }
                static const char * names[] = {"callback returning false", "callback returning its call index (0 first)", "callback returning true", "callback returning a null / non-null pointer"};
                if (!bad2) {
                    bad2 = verdict_of(names[variant], calls2, seen2, cells);
                }
            }
            label("value-returning callbacks");
        }
        if (!bad && !bad2 && cells <= 4096) {
            std::vector<uint64_t> iext(N);
            tuple_t is;
            uint64_t icells = 1;
            for (size_t k = 0; k < N; ++k) {
                iext[k] = c.ext[(k + 1) % N] % 3 + 1;   // 1..3 per axis, related to the outer extents but not equal to them
                is[k] = static_cast<T>(iext[k]);
                icells *= iext[k];
            }
            std::vector<uint32_t> seen3(cells, 0), iseen(icells, 0);
            uint64_t calls3 = 0;
            try {
                covfie::utility::nd_map<tuple_t>(
                    [&](tuple_t t) {
                        if (++calls3 > cells + 8) {
                            throw TooMany{};
                        }
                        std::fill(iseen.begin(), iseen.end(), 0u);
                        uint64_t icalls = 0;
                        covfie::utility::nd_map<tuple_t>(
                            [&](tuple_t u) {
                                if (++icalls > icells + 8) {
                                    throw TooMany{};
                                }
                                int64_t r = rank_of(u, iext);
                                if (r < 0) {
                                    bad2 = std::string("nested traversal: inner callback received a tuple outside the inner box");
                                } else {
                                    iseen[size_t(r)]++;
                                }
                            },
                            is
                        );
                        if (!bad2) {
                            bad2 = verdict_of("nested traversal, inner box", icalls, iseen, icells);
                        }
                        int64_t r = rank_of(t, c.ext);
                        if (r < 0) {
                            bad2 = std::string("nested traversal: outer callback received a tuple outside the box after an inner traversal");
                        } else {
                            seen3[size_t(r)]++;
                        }
                    },
                    s
                );
            } catch (const TooMany &) {
                return std::string("nested traversal: a callback was invoked more often than its box has tuples");
            }
            if (!bad2) {
                bad2 = verdict_of("nested traversal, outer box", calls3, seen3, cells);
            }
            label("nested traversal (callback iterates over a second box of the same tuple type)");
        }
        bool nontriv = N >= 2 && !all_equal;
        Hasher h;
        h.vec(c.ext);
        if (has0) {
            label("some extent 0");
        }
        if (has1) {
            label("some extent 1");
        }
        if (nontriv) {
            label("N>=2, extents not all equal");
        }
        record(name(), nontriv, h.h, [&] { return c.to_json(); });
        if (bad) {
            return bad;
        }
        if (calls != cells) {
            return "callback invoked " + std::to_string(calls) + " times, box has " + std::to_string(cells) + " tuples";
        }
        for (uint64_t r = 0; r < cells; ++r) {
            if (seen[r] != 1) {
                return "tuple of rank " + std::to_string(r) + " visited " + std::to_string(seen[r]) + " times";
            }
        }
        if (bad2) {
            return bad2;
        }
        return std::nullopt;
    }
    static void exhaustive(uint64_t B)
    {
        Case c;
        c.ext.assign(N, 0);
        uint64_t n = 0;
        while (true) {
            run_explicit(name(), c, run);
            ++n;
            size_t k = 0;
            while (k < N && c.ext[k] == B) {
                c.ext[k++] = 0;
            }
            if (k == N) {
                break;
            }
            c.ext[k]++;
        }
        note_exhaustive(name() + ": all " + std::to_string(n) + " extent vectors with extents in 0.." + std::to_string(B));
    }
    static void campaign()
    {
        static const uint64_t Bq[] = {0, 6, 5, 4, 3, 3}, Bt[] = {0, 40, 14, 8, 6, 4};
        exhaustive(tier(Bq[N], Bt[N]));
        rc_campaign<Case>(name(), tier(400, 6000), 100, gen_case(N), run);
        if (N >= 2) {
            // volumes that are multiples of 2^bits(T) (a product computed in T wraps to 0) and other huge boxes
            const unsigned bits = 8 * sizeof(T) - (std::is_signed_v<T> ? 1 : 0);
            for (unsigned a = 1; a < bits; ++a) {
                for (unsigned b : {bits - a, bits - a + 1 > bits - 1 ? bits - 1 : bits - a + 1}) {
                    if (b == 0 || b >= bits) {
                        continue;
                    }
                    Case c;
                    c.ext.assign(N, 1);
                    c.ext[0] = uint64_t(1) << a;
                    c.ext[N - 1] = uint64_t(1) << b;
                    if (N >= 3) {
                        c.ext[1] = 3;
                    }
                    run_explicit(name(), c, run);
                }
            }
        }
    }
    static void reg()
    {
        add_inst(name(), campaign, [](const json & j) { return run(Case::from_json(j)); });
    }
};

void register_all()
{
    P<size_t, 1>::reg();
    P<size_t, 2>::reg();
    P<size_t, 3>::reg();
    P<size_t, 4>::reg();
    P<size_t, 5>::reg();
    P<unsigned, 2>::reg();
    P<int, 3>::reg();
    P<unsigned, 4>::reg();
    P<int, 5>::reg();
    P<uint8_t, 2>::reg();
    P<uint8_t, 3>::reg();
    P<uint16_t, 2>::reg();
    P<uint16_t, 4>::reg();
}
}   // namespace
VF_MAIN(register_all)
