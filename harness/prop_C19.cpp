// C19: nd_map invokes the callback exactly once for every index tuple inside the
// box and for no other tuple.
// Generated: extent vectors (exhaustive up to a bound per dimensionality, random
// larger ones). Oracle: multiset of visited tuples == the box, built independently.
#include "common.hpp"

#include <covfie/core/utility/nd_map.hpp>

namespace {
using namespace vf;

struct Case {
    std::vector<uint64_t> ext;
    json to_json() const { return json{{"extents", ext}}; }
    static Case from_json(const json & j) { return Case{j.at("extents").get<std::vector<uint64_t>>()}; }
};

// one long axis / others short, boundary values, under a cell cap
rc::Gen<Case> gen_case(size_t N)
{
    return rc::gen::map(rc::gen::container<std::vector<uint64_t>>(N, rc::gen::weightedOneOf<uint64_t>({{3, in_range<uint64_t>(0, 4)}, {3, in_range<uint64_t>(2, 12)}, {1, in_range<uint64_t>(13, 70)}})), [](std::vector<uint64_t> e) {
        uint64_t cells = 1;
        for (auto & x : e) {
            if (cells * (x ? x : 1) > 60000) {
                x = 1 + x % 3;
            }
            cells *= (x ? x : 1);
        }
        return Case{e};
    });
}

template <class T, size_t N>
struct P {
    using tuple_t = covfie::array::array<T, N>;
    static std::string name()
    {
        return std::string("nd_map/T=") + (std::is_same_v<T, size_t> ? "size_t" : std::is_same_v<T, unsigned> ? "unsigned" : std::is_same_v<T, uint8_t> ? "uint8" : std::is_same_v<T, uint16_t> ? "uint16" : "int") + "/N=" +
               std::to_string(N);
    }
    // a box far too large to enumerate: the callback must be invoked (first with the all-zero tuple);
    // the enumeration is cut short by throwing out of the callback
    static Verdict run_huge(const Case & c)
    {
        tuple_t s;
        for (size_t k = 0; k < N; ++k) {
            s[k] = static_cast<T>(c.ext[k]);
        }
        struct Stop {};
        bool called = false, zero = true;
        try {
            covfie::utility::nd_map<tuple_t>(
                [&](tuple_t t) {
                    called = true;
                    for (size_t k = 0; k < N; ++k) {
                        zero = zero && t[k] == T(0);
                    }
                    throw Stop{};
                },
                s
            );
        } catch (const Stop &) {
        }
        Hasher h;
        h.vec(c.ext).pod(uint8_t(1));
        label("huge box: first callback only");
        record(name(), true, h.h, [&] { return c.to_json(); });
        if (!called) {
            return std::string("the callback was never invoked for a non-empty box");
        }
        if (!zero) {
            return std::string("the first tuple passed to the callback is not the all-zero tuple");
        }
        return std::nullopt;
    }
    static Verdict run(const Case & c)
    {
        tuple_t s;
        {
            // boxes beyond 2^22 cells are only probed for their first callback
            long double vol = 1;
            for (auto e : c.ext) {
                vol *= (long double)e;
            }
            if (vol > 4194304.0L) {
                return run_huge(c);
            }
        }
        uint64_t cells = 1;
        bool all_equal = true, has0 = false, has1 = false;
        for (size_t k = 0; k < N; ++k) {
            s[k] = static_cast<T>(c.ext[k]);
            cells *= c.ext[k];
            all_equal = all_equal && c.ext[k] == c.ext[0];
            has0 = has0 || c.ext[k] == 0;
            has1 = has1 || c.ext[k] == 1;
        }
        // independent model of the box: mixed-radix rank -> visit count
        std::vector<uint32_t> seen(cells, 0);
        uint64_t calls = 0;
        std::optional<std::string> bad;
        // the callback is a generic lambda that overwrites its argument after recording it: whatever it does to the
        // tuple it was handed must not influence the iteration (callers may take the tuple by forwarding reference)
        struct TooMany {};
        try {
        covfie::utility::nd_map<tuple_t>(
            [&](auto && t) {
                struct Scribble {
                    std::remove_reference_t<decltype(t)> & r;
                    ~Scribble()
                    {
                        if constexpr (!std::is_const_v<std::remove_reference_t<decltype(t)>>) {
                            for (size_t k = 0; k < N; ++k) {
                                r[k] = static_cast<T>(~T(0));
                            }
                        }
                    }
                } scribble{t};
                ++calls;
                if (calls > cells + 8) {
                    throw TooMany{};   // cut a runaway iteration short; reported below
                }
                uint64_t rank = 0;
                for (size_t k = 0; k < N; ++k) {
                    if (t[k] < T(0) || uint64_t(t[k]) >= c.ext[k]) {
                        if (!bad) {
                            std::ostringstream os;
                            os << "callback received a tuple outside the box: component " << k << " = " << (long long)t[k];
                            bad = os.str();
                        }
                        return;
                    }
                    rank = rank * c.ext[k] + uint64_t(t[k]);
                }
                seen[rank]++;
            },
            s
        );
        } catch (const TooMany &) {
            return "callback invoked more than " + std::to_string(cells) + " times (the box has that many tuples)";
        }
        bool nontriv = N >= 2 && !all_equal;
        Hasher h;
        h.vec(c.ext);
        if (has0) {
            label("some extent 0");
        }
        if (has1) {
            label("some extent 1");
        }
        if (nontriv) {
            label("N>=2, extents not all equal");
        }
        record(name(), nontriv, h.h, [&] { return c.to_json(); });
        if (bad) {
            return bad;
        }
        if (calls != cells) {
            return "callback invoked " + std::to_string(calls) + " times, box has " + std::to_string(cells) + " tuples";
        }
        for (uint64_t r = 0; r < cells; ++r) {
            if (seen[r] != 1) {
                return "tuple of rank " + std::to_string(r) + " visited " + std::to_string(seen[r]) + " times";
            }
        }
        return std::nullopt;
    }
    static void exhaustive(uint64_t B)
    {
        Case c;
        c.ext.assign(N, 0);
        uint64_t n = 0;
        while (true) {
            run_explicit(name(), c, run);
            ++n;
            size_t k = 0;
            while (k < N && c.ext[k] == B) {
                c.ext[k++] = 0;
            }
            if (k == N) {
                break;
            }
            c.ext[k]++;
        }
        note_exhaustive(name() + ": all " + std::to_string(n) + " extent vectors with extents in 0.." + std::to_string(B));
    }
    static void campaign()
    {
        static const uint64_t Bq[] = {0, 6, 5, 4, 3, 3}, Bt[] = {0, 40, 14, 8, 6, 4};
        exhaustive(tier(Bq[N], Bt[N]));
        rc_campaign<Case>(name(), tier(400, 6000), 100, gen_case(N), run);
        if (N >= 2) {
            // volumes that are multiples of 2^bits(T) (a product computed in T wraps to 0) and other huge boxes
            const unsigned bits = 8 * sizeof(T) - (std::is_signed_v<T> ? 1 : 0);
            for (unsigned a = 1; a < bits; ++a) {
                for (unsigned b : {bits - a, bits - a + 1 > bits - 1 ? bits - 1 : bits - a + 1}) {
                    if (b == 0 || b >= bits) {
                        continue;
                    }
                    Case c;
                    c.ext.assign(N, 1);
                    c.ext[0] = uint64_t(1) << a;
                    c.ext[N - 1] = uint64_t(1) << b;
                    if (N >= 3) {
                        c.ext[1] = 3;
                    }
                    run_explicit(name(), c, run);
                }
            }
        }
    }
    static void reg()
    {
        add_inst(name(), campaign, [](const json & j) { return run(Case::from_json(j)); });
    }
};

void register_all()
{
    P<size_t, 1>::reg();
    P<size_t, 2>::reg();
    P<size_t, 3>::reg();
    P<size_t, 4>::reg();
    P<size_t, 5>::reg();
    P<unsigned, 2>::reg();
    P<int, 3>::reg();
    P<unsigned, 4>::reg();
    P<int, 5>::reg();
    P<uint8_t, 2>::reg();
    P<uint8_t, 3>::reg();
    P<uint16_t, 2>::reg();
    P<uint16_t, 4>::reg();
}
}   // namespace
VF_MAIN(register_all)
