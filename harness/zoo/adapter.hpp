// Engine E2: generic, public-API-only adapter turning any covfie layer stack into a
// type-erased IStack. Pattern-matches on the layer templates; uses field, field_view,
// make_parameter_pack, get_configuration, get_backend, dump and the stream constructor.
// All scalars cross the boundary as 64-bit words holding the bit pattern of the typed
// value (never through a floating-point conversion).
#pragma once
#include <cstring>
#include <new>
#include "../cov.hpp"
#include "istack.hpp"

#include <cstring>
#include <functional>
#include <map>
#include <memory>
#include <sstream>
#include <tuple>
#include <vector>

namespace zoo {
namespace cb = covfie::backend;

template <class S>
S from_word(uint64_t w)
{
    S s;
    std::memcpy(&s, &w, sizeof(S));
    return s;
}
template <class S>
uint64_t to_word(const S & s)
{
    uint64_t w = 0;
    std::memcpy(&w, &s, sizeof(S));
    return w;
}
template <class V>
V vec_from(const Words & w, size_t off)
{
    V v;
    for (size_t i = 0; i < V::dimensions; ++i) {
        v[i] = from_word<typename V::value_type>(w.at(off + i));
    }
    return v;
}
template <class V>
void vec_to(Words & w, const V & v)
{
    for (size_t i = 0; i < V::dimensions; ++i) {
        w.push_back(to_word<typename V::value_type>(v[i]));
    }
}

// ---- layer traits: configuration <-> words
template <class B>
struct LT;
template <class B>
struct SizesLT {
    using C = typename B::configuration_t;
    static C make(const Words & w) { return vec_from<C>(w, 0); }
    static Words read(const C & c)
    {
        Words w;
        vec_to(w, c);
        return w;
    }
};
template <class S, class B>
struct LT<cb::strided<S, B>> : SizesLT<cb::strided<S, B>> {};
template <class S, class B, bool U>
struct LT<cb::morton<S, B, U>> : SizesLT<cb::morton<S, B, U>> {};
template <class S, class B>
struct LT<cb::hilbert<S, B>> : SizesLT<cb::hilbert<S, B>> {};
template <class V, class I>
struct LT<cb::array<V, I>> : SizesLT<cb::array<V, I>> {};
template <class I, class O>
struct LT<cb::constant<I, O>> : SizesLT<cb::constant<I, O>> {};
template <class B>
struct LT<cb::clamp<B>> {
    using L = cb::clamp<B>;
    using V = typename L::contravariant_input_t::vector_t;
    static typename L::configuration_t make(const Words & w) { return {vec_from<V>(w, 0), vec_from<V>(w, V::dimensions)}; }
    static Words read(const typename L::configuration_t & c)
    {
        Words w;
        vec_to(w, c.min);
        vec_to(w, c.max);
        return w;
    }
};
template <class B>
struct LT<cb::backup<B>> {
    using L = cb::backup<B>;
    using V = typename L::contravariant_input_t::vector_t;
    using O = typename L::covariant_output_t::vector_t;
    static typename L::configuration_t make(const Words & w) { return {vec_from<V>(w, 0), vec_from<V>(w, V::dimensions), vec_from<O>(w, 2 * V::dimensions)}; }
    static Words read(const typename L::configuration_t & c)
    {
        Words w;
        vec_to(w, c.min);
        vec_to(w, c.max);
        vec_to(w, c.default_value);
        return w;
    }
};
template <class B>
struct LT<cb::affine<B>> {
    using L = cb::affine<B>;
    static constexpr size_t N = L::contravariant_input_t::dimensions;
    using T = typename L::contravariant_input_t::scalar_t;
    static typename L::configuration_t make(const Words & w)
    {
        typename L::configuration_t m;
        for (size_t i = 0; i < N; ++i) {
            for (size_t j = 0; j <= N; ++j) {
                m(i, j) = from_word<T>(w.at(i * (N + 1) + j));
            }
        }
        return m;
    }
    static Words read(const typename L::configuration_t & c)
    {
        Words w;
        for (size_t i = 0; i < N; ++i) {
            for (size_t j = 0; j <= N; ++j) {
                w.push_back(to_word<T>(c(i, j)));
            }
        }
        return w;
    }
};
struct MonoLT {
    static std::monostate make(const Words &) { return {}; }
    static Words read(const std::monostate &) { return {}; }
};
#ifndef VF_NO_LINEAR
template <class B, class V>
struct LT<cb::linear<B, V>> : MonoLT {};
#endif
template <class B, class V>
struct LT<cb::nearest_neighbour<B, V>> : MonoLT {};
template <class B, class P>
struct LT<cb::shuffle<B, P>> : MonoLT {};
template <class B>
struct LT<cb::dereference<B>> : MonoLT {};
template <class T, class B>
struct LT<cb::covariant_cast<T, B>> : MonoLT {};
template <class V>
struct LT<cb::identity<V>> : MonoLT {};

// ---- the storage sub-stack: a storage order directly over array
template <class B>
struct is_array : std::false_type {};
template <class V, class I>
struct is_array<cb::array<V, I>> : std::true_type {};
template <class B, bool init = B::is_initial>
struct is_store : std::false_type {};
template <class B>
struct is_store<B, false> : is_array<typename B::backend_t> {};
template <class B, bool st = is_store<B>::value, bool init = B::is_initial>
struct store_of {
    using type = typename store_of<typename B::backend_t>::type;
};
template <class B, bool i>
struct store_of<B, true, i> {
    using type = B;
};
template <class B>
struct store_of<B, false, true> {
    using type = void;
};
template <class B>
struct is_strided : std::false_type {};
template <class S, class A>
struct is_strided<cb::strided<S, A>> : std::true_type {};

// ---- tuple of (conf_0, ..., conf_k, inner owning data / inner conf) -> field
template <class B>
auto pack_tuple(const std::vector<Words> & cfgs, size_t k, const void * store)
{
    if constexpr (is_store<B>::value) {
        return std::make_tuple(typename B::owning_data_t(*static_cast<const typename B::owning_data_t *>(store)));
    } else if constexpr (B::is_initial) {
        return std::make_tuple(LT<B>::make(cfgs.at(k)));
    } else {
        return std::tuple_cat(std::make_tuple(LT<B>::make(cfgs.at(k))), pack_tuple<typename B::backend_t>(cfgs, k + 1, store));
    }
}
template <class B>
covfie::field<B> build_field(const std::vector<Words> & cfgs, const void * store)
{
    return std::apply([](auto &&... a) { return covfie::field<B>(covfie::make_parameter_pack(std::move(a)...)); }, pack_tuple<B>(cfgs, 0, store));
}
// configurations read back through the public accessors, outermost first
template <class B>
void read_cfgs(const typename B::owning_data_t & o, std::vector<Words> & out)
{
    out.push_back(LT<B>::read(o.get_configuration()));
    if constexpr (!B::is_initial) {
        read_cfgs<typename B::backend_t>(o.get_backend(), out);
    }
}
// typed tuple (conf_0, ..., conf_innermost-or-array-owning-copy) from a constructed field: C17 rebuild
template <class B>
auto rebuild_tuple(const typename B::owning_data_t & o)
{
    if constexpr (is_array<B>::value) {
        return std::make_tuple(typename B::owning_data_t(o));
    } else if constexpr (B::is_initial) {
        return std::make_tuple(o.get_configuration());
    } else {
        return std::tuple_cat(std::make_tuple(o.get_configuration()), rebuild_tuple<typename B::backend_t>(o.get_backend()));
    }
}
// innermost array contents, flat storage order
template <class B>
void storage_words(const typename B::owning_data_t & o, Words & out)
{
    if constexpr (is_array<B>::value) {
        typename B::non_owning_data_t v(o);
        const uint64_t n = o.get_configuration()[0];
        for (uint64_t i = 0; i < n; ++i) {
            auto & r = v.at(i);
            for (size_t j = 0; j < std::decay_t<decltype(r)>::dimensions; ++j) {
                out.push_back(to_word(r[j]));
            }
        }
    } else if constexpr (!B::is_initial) {
        storage_words<typename B::backend_t>(o.get_backend(), out);
    }
}

template <class B>
struct StackImpl : IStack {
    using F = covfie::field<B>;
    using view_t = typename F::view_t;
    static constexpr size_t N = B::contravariant_input_t::dimensions;
    static constexpr size_t M = B::covariant_output_t::dimensions;
    using in_scalar = typename B::contravariant_input_t::scalar_t;
    using out_scalar = typename B::covariant_output_t::scalar_t;
    static constexpr bool is_ref = std::is_lvalue_reference_v<typename B::covariant_output_t::vector_t>;
    F f;
    explicit StackImpl(F && g)
        : f(std::move(g))
    {
    }
    StackImpl() = default;

    static typename F::coordinate_t coord(const Words & c)
    {
        typename F::coordinate_t x;
        for (size_t k = 0; k < N; ++k) {
            x[k] = from_word<in_scalar>(c.at(k));
        }
        return x;
    }
    template <class R>
    static Words out(const R & r)
    {
        Words w;
        for (size_t j = 0; j < M; ++j) {
            w.push_back(to_word<out_scalar>(r[j]));
        }
        return w;
    }
    Words at(const Words & c) const override
    {
        // views are copyable values: the lookup goes through a copy whose original has been destroyed, its memory
        // overwritten and released
        void * mem = ::operator new(sizeof(view_t), std::align_val_t(alignof(view_t)));
        view_t * vp = new (mem) view_t(f);
        view_t w(*vp);
        vp->~view_t();
        std::memset(mem, 0xA5, sizeof(view_t));
        ::operator delete(mem, std::align_val_t(alignof(view_t)));
        return out(w.at(coord(c)));
    }
    template <size_t... Is>
    Words at_var(const Words & c, std::index_sequence<Is...>) const
    {
        view_t v(f);
        return out(v.at(from_word<in_scalar>(c.at(Is))...));
    }
    Words at_variadic(const Words & c) const override { return at_var(c, std::make_index_sequence<N>{}); }
    bool writable() const override { return is_ref; }
    void write(const Words & c, const Words & val) override
    {
        if constexpr (is_ref) {
            view_t v(f);
            auto & r = v.at(coord(c));
            for (size_t j = 0; j < M; ++j) {
                r[j] = from_word<out_scalar>(val.at(j));
            }
        }
    }
    std::vector<Words> configs() const override
    {
        std::vector<Words> o;
        read_cfgs<B>(f.backend(), o);
        return o;
    }
    Words storage() const override
    {
        Words w;
        storage_words<B>(f.backend(), w);
        return w;
    }
    std::string dump() const override
    {
        std::ostringstream ss;
        f.dump(ss);
        return ss.str();
    }
    std::unique_ptr<IStack> load(std::istream & is) const override { return std::make_unique<StackImpl<B>>(F(is)); }
    std::unique_ptr<IStack> clone() const override
    {
        F g(f);
        return std::make_unique<StackImpl<B>>(std::move(g));
    }
    std::unique_ptr<IStack> move_out() override { return std::make_unique<StackImpl<B>>(std::move(f)); }
    void copy_assign(const IStack & o) override { f = static_cast<const StackImpl<B> &>(o).f; }
    void move_assign(IStack & o) override { f = std::move(static_cast<StackImpl<B> &>(o).f); }
    std::unique_ptr<IStack> default_constructed() const override { return std::make_unique<StackImpl<B>>(); }
    std::unique_ptr<IStack> rebuild_cfg_backend() const override
    {
        if constexpr (B::is_initial) {
            return rebuild();
        } else {
            typename B::backend_t::owning_data_t inner(f.backend().get_backend());
            typename B::owning_data_t own(f.backend().get_configuration(), std::move(inner));
            return std::make_unique<StackImpl<B>>(F(covfie::make_parameter_pack(std::move(own))));
        }
    }
    std::unique_ptr<IStack> rebuild_from_backend() const override
    {
        if constexpr (B::is_initial) {
            return rebuild();
        } else {
            return std::make_unique<StackImpl<B>>(
                F(covfie::make_parameter_pack(typename B::configuration_t(f.backend().get_configuration()), typename B::backend_t::owning_data_t(f.backend().get_backend())))
            );
        }
    }
    std::unique_ptr<IStack> rebuild() const override
    {
        return std::make_unique<StackImpl<B>>(std::apply([](auto &&... a) { return F(covfie::make_parameter_pack(std::move(a)...)); }, rebuild_tuple<B>(f.backend())));
    }
};

// build a stack from runtime configurations, extents and storage contents (row-major order, M words per cell)
template <class B>
std::unique_ptr<IStack> make_stack(const std::vector<Words> & cfgs, const Words & ext, const Words & data)
{
    using St = typename store_of<B>::type;
    if constexpr (std::is_void_v<St>) {
        return std::make_unique<StackImpl<B>>(build_field<B>(cfgs, nullptr));
    } else {
        constexpr size_t N = St::contravariant_input_t::dimensions;
        constexpr size_t M = St::covariant_output_t::dimensions;
        using T = typename St::covariant_output_t::scalar_t;
        using A = typename St::backend_t;
        typename St::configuration_t e;
        uint64_t cells = 1, mx = 1;
        for (size_t k = 0; k < N; ++k) {
            e[k] = ext.at(k);
            cells *= ext[k];
            mx = std::max<uint64_t>(mx, ext[k]);
        }
        // documented storage length: product of the extents (row-major), round_pow2(max extent)^N (curves)
        uint64_t len = cells;
        if constexpr (is_strided<St>::value) {
            // optional (N+1)-th entry: extra storage cells beyond the grid (a row-major field may own more than it uses)
            if (ext.size() > N) {
                len += ext[N];
            }
        }
        if constexpr (!is_strided<St>::value) {
            uint64_t side = 1;
            while (side < mx) {
                side *= 2;
            }
            len = 1;
            for (size_t k = 0; k < N; ++k) {
                len *= side;
            }
        }
        covfie::field<St> st(covfie::make_parameter_pack(typename St::configuration_t(e), typename A::owning_data_t(len)));
        {
            typename covfie::field<St>::view_t v(st);
            for (uint64_t r = 0; r < cells; ++r) {
                typename covfie::field<St>::coordinate_t x;
                uint64_t q = r;
                for (size_t k = N; k-- > 0;) {
                    x[k] = static_cast<typename St::contravariant_input_t::scalar_t>(q % ext[k]);
                    q /= ext[k];
                }
                auto & cell = v.at(x);
                for (size_t j = 0; j < M; ++j) {
                    cell[j] = from_word<T>(data.at(r * M + j));
                }
            }
        }
        return std::make_unique<StackImpl<B>>(build_field<B>(cfgs, &st.backend()));
    }
}

template <class B>
Factory make_factory(const char * id, const char * type_name, const char * descriptor)
{
    using F = covfie::field<B>;
    Factory f;
    f.id = id;
    f.type_name = type_name;
    f.descriptor = descriptor;
    f.view_size = sizeof(typename B::non_owning_data_t);
    f.view_trivially_copyable = std::is_trivially_copyable_v<typename F::view_t>;
    f.satisfies_concept = covfie::concepts::field_backend<B>;
    f.N = B::contravariant_input_t::dimensions;
    f.M = B::covariant_output_t::dimensions;
    f.in_size = sizeof(typename B::contravariant_input_t::scalar_t);
    f.out_size = sizeof(typename B::covariant_output_t::scalar_t);
    f.in_is_floating = std::is_floating_point_v<typename B::contravariant_input_t::scalar_t>;
    f.out_is_floating = std::is_floating_point_v<typename B::covariant_output_t::scalar_t>;
    f.out_is_reference = std::is_lvalue_reference_v<typename B::covariant_output_t::vector_t>;
    f.build = [](const std::vector<Words> & c, const Words & e, const Words & d) { return make_stack<B>(c, e, d); };
    f.blank = [] { return std::unique_ptr<IStack>(new StackImpl<B>()); };
    return f;
}
}   // namespace zoo

#define ZOO_REGISTER(ID, DESCRIPTOR, ...)                                      \
    static zoo::Registrar zoo_registrar_##ID(zoo::make_factory<__VA_ARGS__>(#ID, #__VA_ARGS__, DESCRIPTOR));
