// Independent reference parser / printer of the covfie binary field format, as of the
// pinned revision. No covfie include: every constant is restated here from the format
// description (nested HEADER payload FOOTER records; interpolators, permutation, cast
// and dereference layers have no on-disk footprint).
//
//   field      := HDR(0xAB000000) layer FTR(0xAB000000)
//   HDR(tag)   := u32 0xC04F1EAB, u32 tag
//   FTR(tag)   := u32 0xC04F1E70, u32 tag + 0x20000000
//   array      := HDR(0xAB010000) u32 width(4|8) u64 count  count*M scalars of `width` bytes  FTR
//   constant   := HDR(0xAB010001) M scalars (in-memory type) FTR
//   identity   := HDR(0xAB010002) FTR
//   affine     := HDR(0xAB020000) N*(N+1) scalars (row-major, last column = translation) layer FTR
//   backup     := HDR(0xAB020001) N min, N max, M default, layer FTR
//   clamp      := HDR(0xAB020002) N min, N max, layer FTR
//   hilbert    := HDR(0xAB020004) N u64 extents, layer FTR
//   morton     := HDR(0xAB020006) N u64 extents, layer FTR
//   strided    := HDR(0xAB020010) N u64 extents, layer FTR
//   linear | nearest_neighbour | shuffle | covariant_cast | dereference := layer
// All integers little-endian.
#pragma once
#include "model.hpp"

#include <map>
#include <string>
#include <vector>

namespace reff {
using model::Desc;
using model::Sc;
using Words = std::vector<uint64_t>;

constexpr uint32_t MAGIC_HDR = 0xC04F1EABu, MAGIC_FTR = 0xC04F1E70u, FTR_OFFSET = 0x20000000u, TAG_FIELD = 0xAB000000u;
inline uint32_t tag_of(const std::string & kind)
{
    static const std::map<std::string, uint32_t> t{{"array", 0xAB010000u}, {"constant", 0xAB010001u}, {"identity", 0xAB010002u}, {"affine", 0xAB020000u}, {"backup", 0xAB020001u}, {"clamp", 0xAB020002u}, {"hilbert", 0xAB020004u}, {"morton", 0xAB020006u}, {"strided", 0xAB020010u}};
    auto it = t.find(kind);
    return it == t.end() ? 0 : it->second;
}
inline size_t size_of(Sc s) { return (s == Sc::f32 || s == Sc::i32 || s == Sc::u32) ? 4 : 8; }

// a structural 32-bit word of the stream and what it is
struct Mark {
    size_t offset;
    std::string what;   // "magic-header" | "tag-header" | "magic-footer" | "tag-footer" | "float-width"
    uint32_t value;
    int layer;          // -1: the field-level record
};
struct Parsed {
    std::vector<Words> cfg;   // per layer (outermost first): configuration scalars as 64-bit words
    uint32_t width = 0;       // array payload scalar width
    uint64_t count = 0;       // array element count
    Words data;               // array payload, width-byte scalars as words (flat storage order)
    std::vector<Mark> marks;
    size_t consumed = 0;
    size_t count_offset = 0;
};

struct Parser {
    const std::string & b;
    const Desc & d;
    size_t pos = 0;
    std::string err;
    Parsed out;

    bool need(size_t n)
    {
        if (pos + n > b.size()) {
            if (err.empty()) {
                err = "stream ends at byte " + std::to_string(b.size()) + " where " + std::to_string(n) + " more bytes at offset " + std::to_string(pos) + " are required";
            }
            return false;
        }
        return true;
    }
    bool u32(uint32_t & v)
    {
        if (!need(4)) {
            return false;
        }
        std::memcpy(&v, b.data() + pos, 4);
        pos += 4;
        return true;
    }
    bool scalar(size_t width, uint64_t & w)
    {
        if (!need(width)) {
            return false;
        }
        w = 0;
        std::memcpy(&w, b.data() + pos, width);
        pos += width;
        return true;
    }
    bool head(uint32_t tag, int layer)
    {
        uint32_t m, t;
        size_t p0 = pos;
        if (!u32(m) || !u32(t)) {
            return false;
        }
        out.marks.push_back({p0, "magic-header", m, layer});
        out.marks.push_back({p0 + 4, "tag-header", t, layer});
        if (m != MAGIC_HDR || t != tag) {
            err = "bad header at offset " + std::to_string(p0);
            return false;
        }
        return true;
    }
    bool foot(uint32_t tag, int layer)
    {
        uint32_t m, t;
        size_t p0 = pos;
        if (!u32(m) || !u32(t)) {
            return false;
        }
        out.marks.push_back({p0, "magic-footer", m, layer});
        out.marks.push_back({p0 + 4, "tag-footer", t, layer});
        if (m != MAGIC_FTR || t != tag + FTR_OFFSET) {
            err = "bad footer at offset " + std::to_string(p0);
            return false;
        }
        return true;
    }
    bool scalars(size_t n, Sc s, Words & w)
    {
        for (size_t i = 0; i < n; ++i) {
            uint64_t x;
            if (!scalar(size_of(s), x)) {
                return false;
            }
            w.push_back(x);
        }
        return true;
    }
    bool layer(size_t k)
    {
        const model::Layer & L = d.layers[k];
        const uint32_t tag = tag_of(L.kind);
        if (tag == 0) {
            return layer(k + 1);   // no on-disk footprint
        }
        if (!head(tag, int(k))) {
            return false;
        }
        Words & c = out.cfg[k];
        if (L.kind == "array") {
            size_t p0 = pos;
            uint32_t w;
            if (!u32(w)) {
                return false;
            }
            out.marks.push_back({p0, "float-width", w, int(k)});
            if (w != 4 && w != 8) {
                err = "float width is neither 4 nor 8";
                return false;
            }
            out.width = w;
            out.count_offset = pos;
            uint64_t n;
            if (!scalar(8, n)) {
                return false;
            }
            out.count = n;
            c.push_back(n);
            // guard the multiplication: a count that cannot possibly be present is a truncated stream
            if (n > (b.size() - pos) / (w * L.M) + 1) {
                err = "element count exceeds the bytes present";
                return false;
            }
            for (uint64_t i = 0; i < n * L.M; ++i) {
                uint64_t x;
                if (!scalar(w, x)) {
                    return false;
                }
                out.data.push_back(x);
            }
        } else if (L.kind == "constant") {
            if (!scalars(L.M, L.out, c)) {
                return false;
            }
        } else if (L.kind == "identity") {
        } else if (L.kind == "affine") {
            if (!scalars(L.N * (L.N + 1), L.in, c)) {
                return false;
            }
        } else if (L.kind == "clamp") {
            if (!scalars(2 * L.N, L.in, c)) {
                return false;
            }
        } else if (L.kind == "backup") {
            if (!scalars(2 * L.N, L.in, c) || !scalars(L.M, L.out, c)) {
                return false;
            }
        } else {   // strided, morton, hilbert
            if (!scalars(L.N, Sc::u64, c)) {
                return false;
            }
        }
        if (k + 1 < d.layers.size() && !layer(k + 1)) {
            return false;
        }
        return foot(tag, int(k));
    }
    bool parse()
    {
        out.cfg.assign(d.layers.size(), {});
        if (!head(TAG_FIELD, -1) || !layer(0) || !foot(TAG_FIELD, -1)) {
            return false;
        }
        out.consumed = pos;
        return true;
    }
};

// Reference printer: the bytes a field with these configurations and this payload must dump to.
struct Printer {
    std::string b;
    void u32(uint32_t v) { b.append(reinterpret_cast<const char *>(&v), 4); }
    void scalar(uint64_t w, size_t width) { b.append(reinterpret_cast<const char *>(&w), width); }
    void head(uint32_t tag)
    {
        u32(MAGIC_HDR);
        u32(tag);
    }
    void foot(uint32_t tag)
    {
        u32(MAGIC_FTR);
        u32(tag + FTR_OFFSET);
    }
    void layer(const Desc & d, size_t k, const std::vector<Words> & cfg, const Words & storage)
    {
        const model::Layer & L = d.layers[k];
        const uint32_t tag = tag_of(L.kind);
        if (tag == 0) {
            layer(d, k + 1, cfg, storage);
            return;
        }
        head(tag);
        if (L.kind == "array") {
            const size_t w = size_of(L.out);
            u32(uint32_t(w));
            scalar(storage.size() / L.M, 8);
            for (uint64_t x : storage) {
                scalar(x, w);
            }
        } else if (L.kind == "constant") {
            for (uint64_t x : cfg[k]) {
                scalar(x, size_of(L.out));
            }
        } else if (L.kind == "affine" || L.kind == "clamp") {
            for (uint64_t x : cfg[k]) {
                scalar(x, size_of(L.in));
            }
        } else if (L.kind == "backup") {
            for (size_t i = 0; i < cfg[k].size(); ++i) {
                scalar(cfg[k][i], i < 2 * L.N ? size_of(L.in) : size_of(L.out));
            }
        } else if (L.kind != "identity") {
            for (uint64_t x : cfg[k]) {
                scalar(x, 8);
            }
        }
        if (k + 1 < d.layers.size()) {
            layer(d, k + 1, cfg, storage);
        }
        foot(tag);
    }
    static std::string print(const Desc & d, const std::vector<Words> & cfg, const Words & storage)
    {
        Printer p;
        p.head(TAG_FIELD);
        p.layer(d, 0, cfg, storage);
        p.foot(TAG_FIELD);
        return p.b;
    }
};
}   // namespace reff
