// Type-erased interface between the generated stack TUs (adapter.hpp, includes covfie)
// and the driver (no covfie include).
#pragma once
#include <cstdint>
#include <functional>
#include <iosfwd>
#include <memory>
#include <string>
#include <vector>

namespace zoo {
using Words = std::vector<uint64_t>;

struct IStack {
    virtual ~IStack() {}
    virtual Words at(const Words & c) const = 0;
    virtual Words at_variadic(const Words & c) const = 0;
    virtual bool writable() const = 0;
    virtual void write(const Words & c, const Words & v) = 0;
    virtual std::vector<Words> configs() const = 0;
    virtual Words storage() const = 0;
    virtual std::string dump() const = 0;
    virtual std::unique_ptr<IStack> load(std::istream & is) const = 0;
    virtual std::unique_ptr<IStack> clone() const = 0;
    virtual std::unique_ptr<IStack> move_out() = 0;
    virtual void copy_assign(const IStack & o) = 0;
    virtual void move_assign(IStack & o) = 0;
    virtual std::unique_ptr<IStack> default_constructed() const = 0;
    virtual std::unique_ptr<IStack> rebuild() const = 0;
    // field(make_parameter_pack(own configuration, copy of the backend's complete owning data))
    virtual std::unique_ptr<IStack> rebuild_from_backend() const = 0;
    // owning_data_t(configuration, backend owning data &&) wrapped in a parameter pack of complete owning data
    virtual std::unique_ptr<IStack> rebuild_cfg_backend() const = 0;
};

struct Factory {
    std::string id;
    std::string type_name;
    std::string descriptor;   // JSON produced by the generator from its grammar
    size_t view_size;
    bool view_trivially_copyable;
    bool satisfies_concept;
    size_t N, M, in_size, out_size;
    bool in_is_floating, out_is_floating, out_is_reference;
    std::function<std::unique_ptr<IStack>(const std::vector<Words> &, const Words &, const Words &)> build;
    std::function<std::unique_ptr<IStack>()> blank;
};
std::vector<Factory> & registry();

struct Registrar {
    explicit Registrar(Factory f) { registry().push_back(std::move(f)); }
};
}   // namespace zoo
