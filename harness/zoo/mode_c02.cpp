// C02: a stack's lookup is the composition of its layers' maps.
// Generated: configurations (inside-out, so that the in-domain region of every layer is
// known), storage contents, coordinates; oracle: the reference interpreter applied to
// the generator's descriptor, exact equality on the exact (dyadic) domain.
#include "zoo_driver.hpp"

namespace {
using namespace zd;

struct Ctx {
    const zoo::Factory * f;
    model::Desc d;
    std::string inst;
};

Verdict run(const Ctx & x, const Case & c)
{
    const model::Layer & top = x.d.layers[0];
    // static facts the descriptor (grammar) predicts about the stack type
    if (x.f->N != top.N || x.f->M != top.M) {
        return "stack type has N=" + std::to_string(x.f->N) + " M=" + std::to_string(x.f->M) + ", the grammar derives N=" + std::to_string(top.N) + " M=" + std::to_string(top.M);
    }
    if (x.f->in_is_floating != model::is_real(top.in) || x.f->out_is_floating != model::is_real(top.out) || x.f->out_is_reference != top.ref) {
        return std::string("coordinate / output kinds of the stack type differ from the grammar's derivation");
    }
    std::unique_ptr<zoo::IStack> st = x.f->build(c.cfg, c.ext, c.data);
    for (const Words & xc : c.coords) {
        model::Eval ev{x.d, c.cfg, c.ext, c.data, {}, {}};
        std::vector<ld> cc;
        for (size_t a = 0; a < top.N; ++a) {
            cc.push_back(model::decode(xc.at(a), top.in));
        }
        std::vector<ld> want = ev.at(0, cc);
        if (ev.outside) {
            count_excluded();
            label(("outside exact domain: " + ev.outside->why).c_str());
            continue;   // not a case the property quantifies over on the exact domain; the library is not called
        }
        Words got = st->at(xc);
        Words got2 = st->at_variadic(xc);
        digest(x.inst, got.data(), got.size() * 8);
        bool acted = ev.tr.clamped || ev.tr.defaulted || ev.tr.permuted || ev.tr.cast_changed || top.N != top.M || ev.tr.interpolated || ev.tr.affine_moved || ev.tr.nn_rounded;
        if (ev.tr.clamped) label("coordinate actually clamped");
        if (ev.tr.defaulted) label("default actually returned");
        if (ev.tr.permuted) label("permutation not identity");
        if (ev.tr.cast_changed) label("cast changed type or value");
        if (ev.tr.interpolated) label("interpolated between lattice points");
        if (ev.tr.affine_moved) label("affine map moved the coordinate");
        if (top.N != top.M) label("N != M");
        Hasher h;
        h.vec(c.ext).vec(c.data).vec(xc);
        for (auto & w : c.cfg) {
            h.vec(w);
        }
        record(x.inst, acted, h.h, [&] {
            json j = c.to_json();
            j["coords"] = std::vector<Words>{xc};
            j["type"] = x.f->type_name;
            return j;
        });
        for (size_t j = 0; j < top.M; ++j) {
            ld g = model::decode(got.at(j), top.out), g2 = model::decode(got2.at(j), top.out);
            if (!(g == want[j])) {
                std::ostringstream os;
                os << "component " << j << ": lookup returned " << ld_str(g) << ", composing the layers' definitions gives " << ld_str(want[j]) << "  [" << x.f->type_name << "]";
                return os.str();
            }
            if (!(g2 == want[j])) {
                return "variadic form of the lookup returned " + ld_str(g2) + " for component " + std::to_string(j) + ", expected " + ld_str(want[j]);
            }
        }
    }
    return std::nullopt;
}

ModeReg reg("C02", [](const zoo::Factory & f) {
    auto ctx = std::make_shared<Ctx>();
    ctx->f = &f;
    ctx->d = model::Desc::parse(f.descriptor);
    ctx->inst = "zoo/" + f.id;
    add_inst(
        ctx->inst,
        [ctx] {
            auto g = rc::gen::exec([ctx] { return draw_case(ctx->d, 6); });
            rc_campaign<Case>(ctx->inst, tier(60, 600), 100, g, [ctx](const Case & c) { return run(*ctx, c); });
        },
        [ctx](const json & j) { return run(*ctx, Case::from_json(j)); }
    );
});
}   // namespace
