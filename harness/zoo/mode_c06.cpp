// C06: dumping a field and loading it back reproduces it exactly: identical
// configuration at every layer, bit-identical stored values, identical bytes on
// re-dump. Every dump is also decoded by the independent reference parser, whose
// configuration words and payload must equal the GENERATED bit patterns, and
// re-printed by the reference printer, which must reproduce the bytes.
#include "refformat.hpp"
#include "zoo_driver.hpp"

#include <cmath>
#include <sstream>
#include <streambuf>

namespace zd {
// a scalar of type s as an arbitrary bit pattern, biased to the awkward ones
uint64_t draw_bits(Sc s)
{
    uint64_t r = *rc::gen::arbitrary<uint64_t>();
    unsigned k = *in_range<unsigned>(0, 11);
    if (s == Sc::f32) {
        static const uint32_t sp[] = {0x00000000u, 0x80000000u, 0x7f800000u, 0xff800000u, 0x7fc00000u, 0x7fa00001u /*sNaN*/, 0xffc12345u, 0x00000001u, 0x807fffffu, 0x00800000u};
        return k < 10 ? sp[k] : uint32_t(r);
    }
    if (s == Sc::f64) {
        static const uint64_t sp[] = {0x0ull, 0x8000000000000000ull, 0x7ff0000000000000ull, 0xfff0000000000000ull, 0x7ff8000000000000ull, 0x7ff4000000000001ull /*sNaN*/, 0xfff8000000abcdefull, 0x1ull, 0x800fffffffffffffull, 0x0010000000000000ull};
        return k < 10 ? sp[k] : r;
    }
    if (s == Sc::i32 || s == Sc::u32) {
        static const uint32_t sp[] = {0, 1, 0x7fffffffu, 0x80000000u, 0xffffffffu};
        return k < 5 ? sp[k] : uint32_t(r);
    }
    static const uint64_t sp[] = {0, 1, 0x7fffffffffffffffull, 0x8000000000000000ull, 0xffffffffffffffffull};
    return k < 5 ? sp[k] : r;
}

// configurations and storage as arbitrary bit patterns; extents consistent with the storage
Case draw_bits_case(const model::Desc & d, bool allow_large)
{
    Case c;
    const size_t L = d.layers.size();
    c.cfg.assign(L, {});
    // one case in twelve is a large field: scalar counts straddling 2^10 .. 2^17 (block-wise IO code paths)
    const bool large = allow_large && *in_range<unsigned>(0, 11) == 0;
    for (size_t k = 0; k < L; ++k) {
        const model::Layer & l = d.layers[k];
        if (l.kind == "constant") {
            for (size_t j = 0; j < l.M; ++j) {
                c.cfg[k].push_back(draw_bits(l.out));
            }
        } else if (l.kind == "clamp") {
            for (size_t j = 0; j < 2 * l.N; ++j) {
                c.cfg[k].push_back(draw_bits(l.in));
            }
        } else if (l.kind == "backup") {
            for (size_t j = 0; j < 2 * l.N; ++j) {
                c.cfg[k].push_back(draw_bits(l.in));
            }
            for (size_t j = 0; j < l.M; ++j) {
                c.cfg[k].push_back(draw_bits(l.out));
            }
        } else if (l.kind == "affine") {
            for (size_t j = 0; j < l.N * (l.N + 1); ++j) {
                c.cfg[k].push_back(draw_bits(l.in));
            }
        } else if (l.kind == "strided" || l.kind == "morton" || l.kind == "hilbert") {
            uint64_t cells = 1;
            if (large) {
                // target scalar count 2^k + delta, spread over the axes
                const uint64_t target = ((uint64_t(1) << *in_range<unsigned>(10, 17)) + uint64_t(*in_range<int>(-3, 40))) / l.M + 1;
                uint64_t rest = target;
                for (size_t a = 0; a < l.N; ++a) {
                    uint64_t e = (a + 1 == l.N) ? rest : std::max<uint64_t>(1, uint64_t(std::llround(std::pow(double(rest), 1.0 / double(l.N - a)))));
                    if (l.kind != "strided") {
                        e = std::min<uint64_t>(e, l.N == 1 ? 200000 : l.N == 2 ? 400 : l.N == 3 ? 50 : 18);   // curve storage is side^N
                    }
                    e = std::max<uint64_t>(e, 1);
                    rest = std::max<uint64_t>(1, rest / e);
                    c.ext.push_back(e);
                    c.cfg[k].push_back(e);
                    cells *= e;
                }
            }
            for (size_t a = 0; a < l.N && !large; ++a) {
                // extents include 1, non-powers of two and (rarely) 0: an empty field is a field and can be dumped
                uint64_t e = *rc::gen::weightedOneOf<uint64_t>({{1, rc::gen::just<uint64_t>(0)}, {4, rc::gen::just<uint64_t>(1)}, {14, in_range<uint64_t>(2, l.N <= 2 ? 7 : l.N == 3 ? 5 : 3)}});
                c.ext.push_back(e);
                c.cfg[k].push_back(e);
                cells *= e;
            }
            if (l.kind == "strided" && !large && *in_range<unsigned>(0, 7) == 0) {
                c.ext.push_back(*in_range<uint64_t>(1, 9));   // the array owns more cells than the grid uses
            }
            if (large) {
                // large payloads are a pure function of ONE drawn seed (keeps the rapidcheck recipe small);
                // the same awkward bit-pattern classes as draw_bits
                const uint64_t seed = *rc::gen::arbitrary<uint64_t>();
                for (uint64_t i = 0; i < cells * l.M; ++i) {
                    uint64_t r = mix(seed, i);
                    unsigned k = unsigned(mix(r, 7) % 12);
                    uint64_t w;
                    if (l.out == Sc::f32) {
                        static const uint32_t sp[] = {0x00000000u, 0x80000000u, 0x7f800000u, 0xff800000u, 0x7fc00000u, 0x7fa00001u, 0xffc12345u, 0x00000001u, 0x807fffffu, 0x00800000u};
                        w = k < 10 ? sp[k] : uint32_t(r);
                    } else {
                        static const uint64_t sp[] = {0x0ull, 0x8000000000000000ull, 0x7ff0000000000000ull, 0xfff0000000000000ull, 0x7ff8000000000000ull, 0x7ff4000000000001ull, 0xfff8000000abcdefull, 0x1ull, 0x800fffffffffffffull, 0x0010000000000000ull};
                        w = k < 10 ? sp[k] : r;
                    }
                    c.data.push_back(w);
                }
            } else {
                for (uint64_t i = 0; i < cells * l.M; ++i) {
                    c.data.push_back(draw_bits(l.out));
                }
            }
            // one case in three plants the format's OWN header / footer words in the payload (a reader that looks for
            // chunk boundaries in the data, or resynchronises on a magic word, is only visible then): a global magic
            // word followed by a layer word, at an element boundary half of the time
            if ((l.out == Sc::f32 || l.out == Sc::f64) && !c.data.empty() && *in_range<unsigned>(0, 2) == 0) {
                const unsigned runs = *in_range<unsigned>(1, 3);
                for (unsigned q = 0; q < runs; ++q) {
                    const bool footer = *in_range<unsigned>(0, 1) == 1;
                    static const uint32_t ids[] = {0xAB010000u, 0xAB010000u, 0xAB010000u, 0xAB010001u, 0xAB010002u, 0xAB000000u, 0xAB020000u, 0xAB020001u, 0xAB020002u, 0xAB020003u, 0xAB020004u, 0xAB020005u, 0xAB020006u, 0xAB020007u, 0xAB020008u, 0xAB020009u, 0xAB020010u};
                    const uint32_t g = footer ? 0xC04F1E70u : 0xC04F1EABu;
                    uint32_t w = ids[*in_range<unsigned>(0, unsigned(sizeof ids / sizeof *ids) - 1)];
                    if (*in_range<unsigned>(0, 3) != 0) {
                        w += footer ? 0x20000000u : 0u;   // the matching kind three times in four
                    } else {
                        w += footer ? 0u : 0x20000000u;
                    }
                    uint64_t pos = *in_range<uint64_t>(0, c.data.size() - 1);
                    if (*in_range<unsigned>(0, 1) == 0) {
                        pos -= pos % l.M;
                    }
                    if (l.out == Sc::f64) {
                        c.data[pos] = uint64_t(g) | (uint64_t(w) << 32);
                    } else {
                        c.data[pos] = g;
                        if (pos + 1 < c.data.size()) {
                            c.data[pos + 1] = w;
                        }
                    }
                }
            }
        }
    }
    return c;
}
}   // namespace zd

namespace {
using namespace zd;

struct Ctx {
    const zoo::Factory * f;
    model::Desc d;
    std::string inst;
};

std::string words_str(const Words & w)
{
    std::ostringstream os;
    os << "[";
    for (size_t i = 0; i < w.size(); ++i) {
        os << (i ? "," : "") << "0x" << std::hex << w[i];
    }
    os << "]";
    return os.str();
}

Verdict run(const Ctx & x, const Case & c)
{
    const model::Desc & d = x.d;
    std::unique_ptr<zoo::IStack> st = x.f->build(c.cfg, c.ext, c.data);
    const std::string bytes = st->dump();
    const Words storage = st->storage();
    const int arr = d.find("array");
    // ---- reference parser: the stream is a grammatical dump carrying the generated bits
    reff::Parser p{bytes, d};
    if (!p.parse()) {
        return "the dump does not follow the format grammar: " + p.err;
    }
    if (p.out.consumed != bytes.size()) {
        return "the dump has " + std::to_string(bytes.size() - p.out.consumed) + " trailing bytes after the field footer";
    }
    for (size_t k = 0; k < d.layers.size(); ++k) {
        if (int(k) == arr) {
            continue;
        }
        if (p.out.cfg[k] != c.cfg[k]) {
            return "layer " + std::to_string(k) + " (" + d.layers[k].kind + "): configuration on disk " + words_str(p.out.cfg[k]) + " differs from the configuration the field was built with " + words_str(c.cfg[k]);
        }
    }
    bool special = false;
    if (arr >= 0) {
        const model::Layer & A = d.layers[arr];
        if (p.out.width != reff::size_of(A.out)) {
            return "float width word is " + std::to_string(p.out.width) + " for storage scalars of " + std::to_string(reff::size_of(A.out)) + " bytes";
        }
        if (p.out.data != storage) {
            return std::string("array payload on disk differs from the field's storage");
        }
        if (p.out.count * A.M != storage.size()) {
            return std::string("element count on disk differs from the storage length");
        }
        const model::Layer & O = d.layers[arr - 1];
        if (O.kind == "strided") {
            if (storage.size() < c.data.size() || !std::equal(c.data.begin(), c.data.end(), storage.begin())) {
                return std::string("row-major storage differs from the generated contents");
            }
        } else {
            // curve layouts: every generated cell value is somewhere in the storage (as a multiset); what the
            // padding cells hold is not part of the property
            Words a(storage), b(c.data);
            std::sort(a.begin(), a.end());
            std::sort(b.begin(), b.end());
            if (!std::includes(a.begin(), a.end(), b.begin(), b.end())) {
                return std::string("curve storage does not contain the generated contents (as a multiset)");
            }
        }
        for (uint64_t w : c.data) {
            ld v = model::decode(w, A.out);
            special = special || !std::isfinite(v) || (v != 0 && std::fabs(v) < (A.out == Sc::f32 ? 1.1754944e-38L : 2.2250738585072014e-308L));
        }
    }
    // ---- reference printer: the bytes are exactly what the format prescribes for these values
    std::vector<Words> pcfg(c.cfg);
    if (reff::Printer::print(d, pcfg, storage) != bytes) {
        return std::string("the dump differs from the byte stream the format prescribes for these configurations and this payload");
    }
    // ---- load and compare
    std::istringstream is(bytes);
    std::unique_ptr<zoo::IStack> ld2;
    try {
        ld2 = st->load(is);
    } catch (const std::exception & e) {
        return std::string("loading the field's own dump threw: ") + e.what();
    }
    if (is.tellg() != std::streampos(bytes.size())) {
        return std::string("loading did not consume exactly the dump");
    }
    std::vector<Words> c1 = st->configs(), c2 = ld2->configs();
    for (size_t k = 0; k < c1.size(); ++k) {
        if (c1[k] != c2[k]) {
            return "layer " + std::to_string(k) + " (" + d.layers[k].kind + "): configuration after load " + words_str(c2[k]) + " differs from the original " + words_str(c1[k]);
        }
        if (int(k) != arr && c1[k] != c.cfg[k]) {
            return "layer " + std::to_string(k) + " (" + d.layers[k].kind + "): reported configuration " + words_str(c1[k]) + " differs from the one the field was built with " + words_str(c.cfg[k]);
        }
    }
    if (ld2->storage() != storage) {
        return std::string("stored values after load are not bit-identical to the original");
    }
    if (ld2->dump() != bytes) {
        return std::string("dump(load(dump(f))) differs from dump(f)");
    }
    {
        // the same bytes through a forward-only stream (no seeking, no size): pipes and sockets are streams too
        struct ForwardBuf : std::streambuf {
            const std::string & d;
            size_t pos = 0;
            explicit ForwardBuf(const std::string & s)
                : d(s)
            {
            }
            std::streamsize xsgetn(char * s, std::streamsize n) override
            {
                std::streamsize k = std::min<std::streamsize>(n, std::streamsize(d.size() - pos));
                std::memcpy(s, d.data() + pos, size_t(k));
                pos += size_t(k);
                return k;
            }
            int_type underflow() override { return pos < d.size() ? traits_type::to_int_type(d[pos]) : traits_type::eof(); }
            int_type uflow() override { return pos < d.size() ? traits_type::to_int_type(d[pos++]) : traits_type::eof(); }
        } fb(bytes);
        std::istream fs(&fb);
        std::unique_ptr<zoo::IStack> ld3;
        try {
            ld3 = st->load(fs);
        } catch (const std::exception & e) {
            return std::string("loading the dump through a forward-only (non-seekable) stream threw: ") + e.what();
        }
        if (ld3->dump() != bytes) {
            return std::string("the field loaded through a forward-only stream dumps to different bytes");
        }
    }
    bool cfg_nondefault = false;
    for (size_t k = 0; k < c.cfg.size(); ++k) {
        if (int(k) != arr) {
            for (uint64_t w : c.cfg[k]) {
                cfg_nondefault = cfg_nondefault || w != 0;
            }
        }
    }
    if (special) {
        label("payload with non-finite or subnormal bit patterns");
    }
    bool magic_in_payload = false;
    for (uint64_t w : c.data) {
        magic_in_payload = magic_in_payload || uint32_t(w) == 0xC04F1E70u || uint32_t(w) == 0xC04F1EABu;
    }
    if (magic_in_payload) {
        label("payload containing the format's own header / footer words");
    }
    record(x.inst, special || cfg_nondefault, fnv(bytes), [&] {
        json j = c.to_json();
        j["type"] = x.f->type_name;
        j["dump_bytes"] = bytes.size();
        return j;
    });
    return std::nullopt;
}

ModeReg reg("C06", [](const zoo::Factory & f) {
    auto ctx = std::make_shared<Ctx>();
    ctx->f = &f;
    ctx->d = model::Desc::parse(f.descriptor);
    ctx->inst = "zoo/" + f.id;
    add_inst(
        ctx->inst,
        [ctx] {
            auto g = rc::gen::exec([ctx] { return draw_bits_case(ctx->d, true); });
            rc_campaign<Case>(ctx->inst, tier(150, 3000), 100, g, [ctx](const Case & c) { return run(*ctx, c); });
        },
        [ctx](const json & j) { return run(*ctx, Case::from_json(j)); }
    );
});
}   // namespace
