// C08: loading a stream that is a proper prefix of a valid dump, or in which a header /
// footer / tag / float-width word has been altered, or that was written by an
// incompatible stack, or whose n-th read fails, raises an exception; it never aborts,
// crashes, hangs or returns a field.
// Fault enumeration per generated dump; the independent reference parser decides
// whether the faulted bytes are (still) a grammatical dump of the target type.
#include <algorithm>
#include "refformat.hpp"
#include "zoo_driver.hpp"

#include <sstream>
#include <streambuf>

namespace zd {
Case draw_bits_case(const model::Desc & d, bool allow_large);
}

namespace {
using namespace zd;

struct Ctx {
    const zoo::Factory * f;
    model::Desc d;
    std::string inst;
};

// stream buffer over a byte string whose n-th read request fails
struct FaultBuf : std::streambuf {
    std::string data;
    size_t pos = 0;
    long fail_at;        // index of the read request that fails (-1: never)
    bool throwing;
    long calls = 0;
    FaultBuf(std::string d, long n, bool t)
        : data(std::move(d))
        , fail_at(n)
        , throwing(t)
    {
    }
    bool trip()
    {
        if (calls++ == fail_at) {
            if (throwing) {
                throw std::ios_base::failure("injected read failure");
            }
            pos = data.size();   // short read, then end of file
            return true;
        }
        return false;
    }
    std::streamsize xsgetn(char * s, std::streamsize n) override
    {
        if (trip()) {
            return 0;
        }
        std::streamsize k = std::min<std::streamsize>(n, std::streamsize(data.size() - pos));
        std::memcpy(s, data.data() + pos, size_t(k));
        pos += size_t(k);
        return k;
    }
    int_type underflow() override
    {
        if (trip() || pos >= data.size()) {
            return traits_type::eof();
        }
        return traits_type::to_int_type(data[pos]);
    }
    int_type uflow() override
    {
        if (trip() || pos >= data.size()) {
            return traits_type::eof();
        }
        return traits_type::to_int_type(data[pos++]);
    }
};

enum class Outcome { threw, returned };
struct Fault {
    std::string kind;
    uint64_t a = 0, b = 0;
    std::string target;
    json to_json() const { return json{{"kind", kind}, {"a", a}, {"b", b}, {"target", target}}; }
    static Fault from_json(const json & j) { return Fault{j.at("kind"), j.at("a"), j.at("b"), j.at("target")}; }
};

Outcome try_load(const zoo::IStack & proto, std::istream & is, std::string & what)
{
    try {
        auto f = proto.load(is);
        (void)f;
        return Outcome::returned;
    } catch (const std::exception & e) {
        what = e.what();
        return Outcome::threw;
    } catch (...) {
        what = "(non-standard exception)";
        return Outcome::threw;
    }
}

struct Tally {
    uint64_t faults = 0, nontrivial = 0, still_grammatical = 0, absurd_count_skipped = 0;
};

// would the library read an element count word that is absurd (allocation territory ASan cannot model)?
bool absurd_count(const std::string & bytes, const model::Desc & d)
{
    reff::Parser p{bytes, d};
    p.parse();
    if (p.out.count_offset != 0 && p.out.count_offset + 8 <= bytes.size()) {
        uint64_t n;
        std::memcpy(&n, bytes.data() + p.out.count_offset, 8);
        return n > (uint64_t(1) << 20);
    }
    return false;
}

Verdict one_fault(const Ctx & x, const zoo::IStack & proto, const std::string & bytes, const Fault & ft, Tally & t)
{
    std::string faulted = bytes;
    const model::Desc * target_desc = &x.d;
    const zoo::IStack * target = &proto;
    std::unique_ptr<zoo::IStack> other;
    model::Desc od;
    if (ft.kind == "prefix") {
        faulted.resize(ft.a);
    } else if (ft.kind == "word") {
        uint32_t v = uint32_t(ft.b);
        std::memcpy(&faulted[ft.a], &v, 4);
    } else if (ft.kind == "load_as") {
        for (const zoo::Factory & g : zoo::registry()) {
            if (g.id == ft.target) {
                od = model::Desc::parse(g.descriptor);
                other = g.blank();
                target_desc = &od;
                target = other.get();
            }
        }
        if (!other) {
            return std::nullopt;   // replay on a different stack set
        }
    }
    if (absurd_count(faulted, *target_desc)) {
        t.absurd_count_skipped++;
        count_excluded();
        return std::nullopt;
    }
    bool grammatical;
    {
        reff::Parser p{faulted, *target_desc};
        grammatical = p.parse();
    }
    std::string what;
    Outcome o;
    if (ft.kind == "prefix_exc") {
        // the caller asked the stream to throw on failure: the load must still end in an exception
        // (whichever of the two sources throws first), never in std::terminate
        std::string cut = bytes.substr(0, ft.a);
        std::istringstream is(cut);
        is.exceptions(std::ios::failbit | std::ios::badbit);
        o = try_load(*target, is, what);
        grammatical = false;
    } else if (ft.kind == "read_fail_eof" || ft.kind == "read_fail_throw") {
        FaultBuf fb(bytes, long(ft.a), ft.kind == "read_fail_throw");
        std::istream is(&fb);
        o = try_load(*target, is, what);
        grammatical = false;   // the stream ends / fails before the dump is complete
    } else {
        std::istringstream is(faulted);
        o = try_load(*target, is, what);
    }
    t.faults++;
    if (grammatical) {
        t.still_grammatical++;
        return std::nullopt;   // the format has no integrity check: acceptance follows from the grammar
    }
    if (o == Outcome::returned) {
        return "fault " + ft.to_json().dump() + ": the stream is not a grammatical dump of the target type, yet the constructor returned a field";
    }
    return std::nullopt;
}

Verdict run(const Ctx & x, const Case & c, const std::optional<Fault> & only)
{
    std::unique_ptr<zoo::IStack> st = x.f->build(c.cfg, c.ext, c.data);
    const std::string bytes = st->dump();
    reff::Parser p{bytes, x.d};
    if (!p.parse()) {
        return std::string("(C06) the dump is not grammatical: ") + p.err;
    }
    Tally t;
    Fault cur;
    RefineScope rs([&] { return json{{"fault", cur.to_json()}}; });
    auto go = [&](const Fault & ft, bool nontrivial) -> Verdict {
        cur = ft;
        auto v = one_fault(x, *st, bytes, ft, t);
        t.nontrivial += nontrivial;
        return v;
    };
    if (only) {
        return go(*only, true);
    }
    // (1) every proper prefix
    for (size_t n = 0; n < bytes.size(); ++n) {
        if (auto v = go(Fault{"prefix", n, 0, ""}, n > 0)) {
            return v;
        }
    }
    // (1b) truncation on a stream whose exception mask is set by the caller
    for (size_t n = 0; n < bytes.size(); n += (n < 24 || n + 24 >= bytes.size()) ? 1 : 5) {
        if (auto v = go(Fault{"prefix_exc", n, 0, ""}, n > 0)) {
            return v;
        }
    }
    // (2) every structural word x replacement values
    for (const reff::Mark & m : p.out.marks) {
        std::vector<uint32_t> repl{0u, ~0u, m.value ^ 1u, m.value ^ 0x80000000u, m.value + 1, m.value - 1, reff::MAGIC_HDR, reff::MAGIC_FTR, m.value + reff::FTR_OFFSET, m.value - reff::FTR_OFFSET, uint32_t(mix(c.data.size(), m.offset))};
        if (m.what == "float-width") {
            // every small width, widths given in bits, byte-swapped widths, powers of two
            repl.clear();
            for (uint32_t w = 0; w <= 72; ++w) {
                repl.push_back(w);
            }
            for (uint32_t w : {80u, 96u, 128u, 256u, 512u, 0x04000000u, 0x08000000u, 0x00000400u, 0x00000800u, ~0u, 0x80000004u, 0x80000008u}) {
                repl.push_back(w);
            }
        }
        if (m.what == "tag-header" || m.what == "tag-footer" || m.what == "magic-header" || m.what == "magic-footer") {
            // every single-bit flip and every value of the low byte: an "alternative" accepted word is likely to be near
            for (unsigned b = 0; b < 32; ++b) {
                repl.push_back(m.value ^ (1u << b));
            }
            for (uint32_t lo = 0; lo < 256; ++lo) {
                repl.push_back((m.value & ~0xFFu) | lo);
            }            // every permutation of the word's four bytes (byte-swapped, half-swapped, rotated ...), its bit reversal and
            // its complement: a word written with another byte order is not the word
            {
                int idx[4] = {0, 1, 2, 3};
                do {
                    uint32_t v = 0;
                    for (int k = 0; k < 4; ++k) {
                        v |= ((m.value >> (8 * idx[k])) & 0xFFu) << (8 * k);
                    }
                    repl.push_back(v);
                } while (std::next_permutation(idx, idx + 4));
                uint32_t rev = 0;
                for (unsigned b = 0; b < 32; ++b) {
                    rev |= ((m.value >> b) & 1u) << (31 - b);
                }
                repl.push_back(rev);
                repl.push_back(~m.value);
            }
        }
        if (m.what == "tag-header" || m.what == "tag-footer") {
            for (const char * k : {"array", "constant", "identity", "affine", "backup", "clamp", "hilbert", "morton", "strided"}) {
                repl.push_back(reff::tag_of(k) + (m.what == "tag-footer" ? reff::FTR_OFFSET : 0));
            }
        }
        for (uint32_t v : repl) {
            if (auto r = go(Fault{"word", m.offset, v, ""}, v != m.value)) {
                return r;
            }
        }
    }
    // (3) this dump loaded as every other stack type
    for (const zoo::Factory & g : zoo::registry()) {
        if (auto r = go(Fault{"load_as", 0, 0, g.id}, g.id != x.f->id)) {
            return r;
        }
    }
    // (4) the n-th read fails, for every n
    {
        FaultBuf counter(bytes, -1, false);
        std::istream is(&counter);
        std::string what;
        try_load(*st, is, what);
        for (long n = 0; n < counter.calls; ++n) {
            if (auto r = go(Fault{"read_fail_eof", uint64_t(n), 0, ""}, true)) {
                return r;
            }
            if (auto r = go(Fault{"read_fail_throw", uint64_t(n), 0, ""}, true)) {
                return r;
            }
        }
    }
    record_bulk(x.inst + "/faults", t.faults, t.nontrivial);
    if (t.still_grammatical) {
        for (uint64_t i = 0; i < t.still_grammatical; ++i) {
            label("fault left a grammatical stream (acceptance allowed)");
        }
    }
    record(x.inst, true, fnv(bytes), [&] {
        json j = json{{"type", x.f->type_name}, {"dump_bytes", bytes.size()}, {"faults_injected", t.faults}, {"example_fault", Fault{"prefix", bytes.size() / 2, 0, ""}.to_json()}};
        return j;
    });
    return std::nullopt;
}

ModeReg reg("C08", [](const zoo::Factory & f) {
    auto ctx = std::make_shared<Ctx>();
    ctx->f = &f;
    ctx->d = model::Desc::parse(f.descriptor);
    ctx->inst = "zoo/" + f.id;
    auto from = [](const json & j) -> std::optional<Fault> {
        if (j.contains("fault")) {
            return Fault::from_json(j.at("fault"));
        }
        return std::nullopt;
    };
    add_inst(
        ctx->inst,
        [ctx] {
            auto g = rc::gen::exec([ctx] { return draw_bits_case(ctx->d, false); });
            const char * nc = getenv("VERIF_C08_CASES");
            rc_campaign_json(
                ctx->inst, nc ? atoi(nc) : tier(6, 60), 100, rc::gen::map(g, [](Case && c) { return c.to_json(); }), [ctx](const json & j) { return run(*ctx, Case::from_json(j), std::nullopt); }
            );
        },
        [ctx, from](const json & j) { return run(*ctx, Case::from_json(j), from(j)); }
    );
});
}   // namespace
