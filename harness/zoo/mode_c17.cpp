// C17: the configuration reported by a constructed field equals the one it was
// constructed with, layer by layer from the outside; a field rebuilt from the reported
// configurations plus the innermost storage equals the original.
#include "zoo_driver.hpp"

namespace zd {
Case draw_bits_case(const model::Desc & d, bool allow_large);
}

namespace {
using namespace zd;

struct Ctx {
    const zoo::Factory * f;
    model::Desc d;
    std::string inst;
    bool twin_cfg = false;   // two layers with the same (non-trivial) configuration type
};

Verdict run(const Ctx & x, const Case & c)
{
    const model::Desc & d = x.d;
    std::unique_ptr<zoo::IStack> st = x.f->build(c.cfg, c.ext, c.data);
    const int arr = d.find("array");
    std::vector<Words> got = st->configs();
    if (got.size() != d.layers.size()) {
        return "walking get_backend() reaches " + std::to_string(got.size()) + " layers, the stack has " + std::to_string(d.layers.size());
    }
    if (arr >= 1) {
        // the array layer's length: product of the extents (row-major) / round_pow2(max extent)^N (curves)
        const model::Layer & O = d.layers[arr - 1];
        uint64_t want = 1, mx = 1;
        for (size_t a = 0; a < O.N; ++a) {
            want *= c.ext[a];
            mx = std::max(mx, c.ext[a]);
        }
        if (O.kind == "strided" && c.ext.size() > O.N) {
            want += c.ext[O.N];   // extra storage cells beyond the grid
        }
        if (O.kind != "strided") {
            uint64_t side = 1;
            while (side < mx) {
                side *= 2;
            }
            want = 1;
            for (size_t a = 0; a < O.N; ++a) {
                want *= side;
            }
        }
        if (got[arr].size() != 1 || got[arr][0] != want) {
            return "the array layer reports length " + std::to_string(got[arr].empty() ? 0 : got[arr][0]) + ", it was constructed with " + std::to_string(want) + " cells";
        }
    }
    for (size_t k = 0; k < got.size(); ++k) {
        if (int(k) == arr) {
            continue;
        }
        if (got[k] != c.cfg[k]) {
            return "layer " + std::to_string(k) + " (" + d.layers[k].kind + ") reports a configuration different from the one it was constructed with";
        }
    }
    std::unique_ptr<zoo::IStack> rb = st->rebuild();
    if (rb->configs() != got) {
        return std::string("the field rebuilt from the reported configurations reports different configurations");
    }
    if (rb->dump() != st->dump()) {
        return std::string("the field rebuilt from the reported configurations dumps to different bytes");
    }
    if (rb->storage() != st->storage()) {
        return std::string("the rebuilt field holds different stored values");
    }
    std::unique_ptr<zoo::IStack> rb2 = st->rebuild_from_backend();
    if (rb2->configs() != got || rb2->dump() != st->dump()) {
        return std::string("a field built from (own configuration, the backend's owning data) differs from the original");
    }
    if (arr >= 1 && !c.ext.empty()) {
        // a field of the same type with larger extents, then copy-assigned from this one: what it reports afterwards
        // is this field's configuration (not a mixture with what it held before)
        const model::Layer & O = d.layers[arr - 1];
        Case big = c;
        uint64_t cells = 1;
        for (size_t a = 0; a < O.N; ++a) {
            big.ext[a] = c.ext[a] + 2;
            cells *= big.ext[a];
        }
        big.ext.resize(O.N);
        big.cfg[arr - 1].assign(big.ext.begin(), big.ext.end());
        big.data.assign(cells * O.M, 0);
        std::unique_ptr<zoo::IStack> other = x.f->build(big.cfg, big.ext, big.data);
        other->copy_assign(*st);
        if (other->configs() != got) {
            return std::string("after copy assignment over a larger field, the reported configurations differ from the source's");
        }
        if (other->dump() != st->dump()) {
            return std::string("after copy assignment over a larger field, the dump differs from the source's");
        }
    }
    std::unique_ptr<zoo::IStack> rb3 = st->rebuild_cfg_backend();
    if (rb3->configs() != got || rb3->dump() != st->dump()) {
        return std::string("owning data constructed from (configuration, backend owning data &&) reports a different configuration than it was given");
    }
    const model::Layer & top = d.layers[0];
    for (const Words & xc : c.coords) {
        model::Eval ev{d, c.cfg, c.ext, c.data, {}, {}};
        std::vector<ld> cc;
        for (size_t a = 0; a < top.N; ++a) {
            cc.push_back(model::decode(xc.at(a), top.in));
        }
        ev.at(0, cc);
        if (ev.outside) {
            continue;
        }
        if (st->at(xc) != rb->at(xc)) {
            return std::string("original and rebuilt field differ at a generated coordinate");
        }
    }
    // two layers whose configurations are interchangeable must have received distinct values for a swap to be visible
    bool distinct_twins = false;
    for (size_t a = 0; a < d.layers.size(); ++a) {
        for (size_t b = a + 1; b < d.layers.size(); ++b) {
            if (d.layers[a].kind == d.layers[b].kind && !c.cfg[a].empty() && c.cfg[a].size() == c.cfg[b].size() && c.cfg[a] != c.cfg[b] && int(a) != arr && int(b) != arr) {
                distinct_twins = true;
            }
        }
    }
    if (distinct_twins) {
        label("two layers of the same configuration type with different values");
    }
    Hasher h;
    for (auto & w : c.cfg) {
        h.vec(w);
    }
    h.vec(c.data);
    record(x.inst, distinct_twins, h.h, [&] {
        json j = c.to_json();
        j["type"] = x.f->type_name;
        return j;
    });
    return std::nullopt;
}

ModeReg reg("C17", [](const zoo::Factory & f) {
    auto ctx = std::make_shared<Ctx>();
    ctx->f = &f;
    ctx->d = model::Desc::parse(f.descriptor);
    ctx->inst = "zoo/" + f.id;
    add_inst(
        ctx->inst,
        [ctx] {
            auto g = rc::gen::exec([ctx] { return draw_case(ctx->d, 3, true); });
            rc_campaign<Case>(ctx->inst, tier(100, 2000), 100, g, [ctx](const Case & c) { return run(*ctx, c); });
            // all configuration values, not only those a lookup can live with: arbitrary bit patterns, inverted boxes (no lookups)
            auto gb = rc::gen::exec([ctx] { return draw_bits_case(ctx->d, false); });
            rc_campaign<Case>(ctx->inst, tier(60, 1200), 100, gb, [ctx](const Case & c) { return run(*ctx, c); });
        },
        [ctx](const json & j) { return run(*ctx, Case::from_json(j)); }
    );
});
}   // namespace
