// C07: a file written from one field type loads into any field type that differs only
// in layers without on-disk footprint (the interpolation method) or in the width of
// the stored values: exact when widening, rounded to nearest when narrowing, every
// other configuration unchanged; committed golden files stay loadable and re-dump to
// the same bytes; the byte stream always follows the format grammar.
#include "refformat.hpp"
#include "zoo_driver.hpp"

#include <cfloat>
#include <fstream>
#include <sstream>

namespace zd {
Case draw_bits_case(const model::Desc & d, bool allow_large);
uint64_t draw_bits(Sc s);
}

namespace {
using namespace zd;

struct Ctx {
    const zoo::Factory * f = nullptr;
    const zoo::Factory * partner = nullptr;
    model::Desc d, pd;
    std::string inst;
};

const zoo::Factory * find(const std::string & id)
{
    for (const zoo::Factory & g : zoo::registry()) {
        if (g.id == id) {
            return &g;
        }
    }
    return nullptr;
}

uint64_t dbl_bits(double v)
{
    uint64_t w;
    std::memcpy(&w, &v, 8);
    return w;
}
uint64_t flt_bits(float v)
{
    uint32_t w;
    std::memcpy(&w, &v, 4);
    return w;
}

// finite stored value of scalar type s, within the range of float, biased to values that need rounding
uint64_t draw_value(Sc s)
{
    unsigned k = *in_range<unsigned>(0, 11);
    uint64_t r = *rc::gen::arbitrary<uint64_t>();
    if (s == Sc::f32) {
        float v;
        uint32_t b = uint32_t(r);
        std::memcpy(&v, &b, 4);
        if (!std::isfinite(v)) {
            v = float(int(r % 2001) - 1000) / 8.f;
        }
        return flt_bits(v);
    }
    double v;
    switch (k) {
        case 0: v = 16777217.0; break;                                    // 2^24 + 1: tie, rounds to even
        case 1: v = 1.0 + std::ldexp(1.0, -30); break;
        case 2: v = 0.1 * double(int(r % 200) - 100); break;
        case 3: v = std::ldexp(1.0 + double(r % 1000) / 1024.0, -140); break;   // subnormal in float
        case 4: v = std::ldexp(1.0, -160) * ((r & 1) ? -1 : 1); break;          // underflows to +-0
        case 5: v = double(FLT_MAX) * (1.0 - double(r % 1000) / 1e6); break;
        case 6: v = 16777219.0 + 2.0 * double(r % 50); break;                   // odd multiples above 2^24: ties
        case 7: v = (r & 1) ? -0.0 : 0.0; break;
        default: {
            std::memcpy(&v, &r, 8);
            if (!std::isfinite(v) || std::fabs(v) > double(FLT_MAX)) {
                v = std::ldexp(1.0 + double(r >> 12) / double(uint64_t(1) << 52), int(r % 200) - 100) * ((r >> 11 & 1) ? -1 : 1);
            }
        }
    }
    return dbl_bits(v);
}

Case draw_c07_case(const model::Desc & d)
{
    Case c = draw_bits_case(d, true);
    const int arr = d.find("array");
    if (c.data.size() > 4096) {
        // large payload: values from a small drawn pool, placed by a hash of one drawn seed (small recipe)
        std::vector<uint64_t> pool;
        for (int i = 0; i < 64; ++i) {
            pool.push_back(draw_value(d.layers[arr].out));
        }
        const uint64_t seed = *rc::gen::arbitrary<uint64_t>();
        for (size_t i = 0; i < c.data.size(); ++i) {
            c.data[i] = pool[mix(seed, i) % pool.size()];
        }
        return c;
    }
    for (auto & w : c.data) {
        w = draw_value(d.layers[arr].out);
    }
    // one float case in four stores the format's own (finite) header / footer words next to each other
    if (d.layers[arr].out == Sc::f32 && c.data.size() >= 2 && *in_range<unsigned>(0, 3) == 0) {
        const bool footer = *in_range<unsigned>(0, 1) == 1;
        uint64_t pos = *in_range<uint64_t>(0, c.data.size() - 2);
        if (*in_range<unsigned>(0, 1) == 0) {
            pos -= pos % d.layers[arr].M;
        }
        c.data[pos] = footer ? 0xC04F1E70u : 0xC04F1EABu;
        c.data[pos + 1] = (footer ? 0xCB010000u : 0xAB010000u) + *in_range<uint32_t>(0, 2);
    }
    return c;
}

bool is_nearest_float(double d, float r, bool & needed_rounding)
{
    needed_rounding = double(r) != d;
    if (!needed_rounding) {
        return std::signbit(d) == std::signbit(r);
    }
    ld e = std::fabs(ld(r) - ld(d));
    float up = std::nextafter(r, INFINITY), dn = std::nextafter(r, -INFINITY);
    ld eu = std::fabs(ld(up) - ld(d)), ed = std::fabs(ld(dn) - ld(d));
    if (e > eu || e > ed) {
        return false;
    }
    if (e == eu || e == ed) {
        return (flt_bits(r) & 1) == 0;   // tie: even significand
    }
    return true;
}

Verdict check_conversion(const char * what, const Words & from, Sc sf, const Words & to, Sc st, bool & any_rounding)
{
    if (from.size() != to.size()) {
        return std::string(what) + ": the number of stored scalars changed from " + std::to_string(from.size()) + " to " + std::to_string(to.size());
    }
    for (size_t i = 0; i < from.size(); ++i) {
        if (sf == st) {
            if (from[i] != to[i]) {
                return std::string(what) + ": stored scalar #" + std::to_string(i) + " changed although the width is the same";
            }
        } else if (sf == Sc::f32) {
            // widening: exact
            float a;
            double b;
            uint32_t u = uint32_t(from[i]);
            std::memcpy(&a, &u, 4);
            std::memcpy(&b, &to[i], 8);
            if (!(double(a) == b && std::signbit(a) == std::signbit(b))) {
                return std::string(what) + ": widening changed scalar #" + std::to_string(i) + " from " + ld_str(a) + " to " + ld_str(b);
            }
        } else {
            double a;
            float b;
            std::memcpy(&a, &from[i], 8);
            uint32_t u = uint32_t(to[i]);
            std::memcpy(&b, &u, 4);
            bool nr;
            if (!is_nearest_float(a, b, nr)) {
                return std::string(what) + ": narrowing scalar #" + std::to_string(i) + " = " + ld_str(a) + " gave " + ld_str(b) + ", which is not the nearest single-precision value (ties to even)";
            }
            any_rounding = any_rounding || nr;
        }
    }
    return std::nullopt;
}

Verdict run(const Ctx & x, const Case & c)
{
    const int arr = x.d.find("array");
    const Sc T1 = x.d.layers[arr].out, T2 = x.pd.layers[arr].out;
    std::unique_ptr<zoo::IStack> s1 = x.f->build(c.cfg, c.ext, c.data);
    const std::string bytes = s1->dump();
    std::unique_ptr<zoo::IStack> s2;
    {
        std::istringstream is(bytes);
        try {
            s2 = x.partner->blank()->load(is);
        } catch (const std::exception & e) {
            return std::string("a file written from ") + x.f->type_name + " does not load into " + x.partner->type_name + ": " + e.what();
        }
    }
    std::vector<Words> c1 = s1->configs(), c2 = s2->configs();
    for (size_t k = 0; k < c1.size(); ++k) {
        if (int(k) != arr && c1[k] != c2[k]) {
            return "layer " + std::to_string(k) + " (" + x.d.layers[k].kind + "): configuration changed when the file was loaded into the other field type";
        }
    }
    bool rounding = false;
    const Words st1 = s1->storage(), st2 = s2->storage();
    if (auto b = check_conversion("load into the other type", st1, T1, st2, T2, rounding)) {
        return b;
    }
    // the re-dump of the second type is again a grammatical stream carrying its storage
    const std::string bytes2 = s2->dump();
    reff::Parser p{bytes2, x.pd};
    if (!p.parse() || p.out.consumed != bytes2.size()) {
        return "the dump of the second field type does not follow the format grammar: " + p.err;
    }
    if (p.out.width != reff::size_of(T2) || p.out.data != st2) {
        return std::string("the dump of the second field type does not carry its storage / width");
    }
    for (size_t k = 0; k < c2.size(); ++k) {
        if (int(k) != arr && p.out.cfg[k] != c2[k]) {
            return "layer " + std::to_string(k) + ": configuration on disk differs after the change of type";
        }
    }
    // and back into the first type
    std::unique_ptr<zoo::IStack> s3;
    {
        std::istringstream is(bytes2);
        s3 = x.f->blank()->load(is);
    }
    bool dummy = false;
    if (auto b = check_conversion("load back into the first type", st2, T2, s3->storage(), T1, dummy)) {
        return b;
    }
    if (T1 == T2 && s3->dump() != bytes) {
        return std::string("interpolator change only: the round trip through the other type changed the bytes");
    }
    if (rounding) {
        label("narrowing with at least one value that needs rounding");
    }
    if (T1 != T2) {
        label(T1 == Sc::f32 ? "widening float -> double" : "narrowing double -> float");
    }
    if (x.d.find("linear") != x.pd.find("linear")) {
        label("interpolation method differs");
    }
    record(x.inst, (T1 != T2 && (rounding || T1 == Sc::f32)) || (T1 == T2), fnv(bytes), [&] {
        json j = c.to_json();
        j["from"] = x.f->type_name;
        j["to"] = x.partner->type_name;
        return j;
    });
    return std::nullopt;
}

// ---- golden files: <dir>/<id>.json = {cfg, extents, data, storage, bytes_hex, type}
std::string hex(const std::string & b)
{
    static const char * d = "0123456789abcdef";
    std::string o;
    for (unsigned char ch : b) {
        o.push_back(d[ch >> 4]);
        o.push_back(d[ch & 15]);
    }
    return o;
}
std::string unhex(const std::string & h)
{
    std::string o;
    for (size_t i = 0; i + 1 < h.size(); i += 2) {
        o.push_back(char(std::stoi(h.substr(i, 2), nullptr, 16)));
    }
    return o;
}

Verdict run_golden(const zoo::Factory & f, const json & g)
{
    const model::Desc d = model::Desc::parse(f.descriptor);
    const std::string bytes = unhex(g.at("bytes_hex").get<std::string>());
    std::unique_ptr<zoo::IStack> s;
    {
        std::istringstream is(bytes);
        try {
            s = f.blank()->load(is);
        } catch (const std::exception & e) {
            return std::string("golden file no longer loads: ") + e.what();
        }
    }
    const int arr = d.find("array");
    auto cfg = g.at("cfg").get<std::vector<Words>>();
    auto got = s->configs();
    for (size_t k = 0; k < got.size(); ++k) {
        if (int(k) != arr && got[k] != cfg.at(k)) {
            return "golden file: layer " + std::to_string(k) + " (" + d.layers[k].kind + ") loads with a different configuration than recorded";
        }
    }
    if (s->storage() != g.at("storage").get<Words>()) {
        return std::string("golden file: stored values differ from the recorded ones");
    }
    if (s->dump() != bytes) {
        return std::string("golden file: re-dump differs from the committed bytes");
    }
    reff::Parser p{bytes, d};
    if (!p.parse() || p.out.consumed != bytes.size()) {
        return "golden file does not follow the format grammar: " + p.err;
    }
    record("golden/" + f.id, true, fnv(bytes), [&] { return json{{"type", f.type_name}, {"bytes", bytes.size()}}; });
    return std::nullopt;
}

ModeReg reg("C07", [](const zoo::Factory & f) {
    json dj = json::parse(f.descriptor);
    if (dj.contains("pair")) {
        auto ctx = std::make_shared<Ctx>();
        ctx->f = &f;
        ctx->d = model::Desc::parse(f.descriptor);
        ctx->inst = "zoo/" + f.id;
        const std::string pid = dj.at("pair");
        add_inst(
            ctx->inst,
            [ctx, pid] {
                ctx->partner = find(pid);
                if (!ctx->partner) {
                    infra_exit("partner stack " + pid + " is not linked in");
                }
                ctx->pd = model::Desc::parse(ctx->partner->descriptor);
                auto g = rc::gen::exec([ctx] { return draw_c07_case(ctx->d); });
                rc_campaign<Case>(ctx->inst, tier(120, 3000), 100, g, [ctx](const Case & c) { return run(*ctx, c); });
            },
            [ctx, pid](const json & j) {
                ctx->partner = find(pid);
                if (!ctx->partner) {
                    infra_exit("partner stack " + pid + " is not linked in");
                }
                ctx->pd = model::Desc::parse(ctx->partner->descriptor);
                return run(*ctx, Case::from_json(j));
            }
        );
    }
    const char * gd = getenv("VERIF_GOLDEN");
    if (gd) {
        std::string path = std::string(gd) + "/" + f.id + ".json";
        std::ifstream in(path);
        if (in) {
            auto g = std::make_shared<json>(json::parse(in));
            const zoo::Factory * fp = &f;
            add_inst(
                "golden/" + f.id,
                [fp, g] { run_explicit_json("golden/" + fp->id, [&] { return json{{"golden", fp->id}}; }, [&] { return run_golden(*fp, *g); }); },
                [fp, g](const json &) { return run_golden(*fp, *g); }
            );
        }
    }
});

// writes golden files for every linked stack into VERIF_GOLDEN_OUT (used once, by bin/mkgolden)
ModeReg wreg("GOLDEN_WRITE", [](const zoo::Factory & f) {
    const zoo::Factory * fp = &f;
    add_inst(
        "golden-write/" + f.id,
        [fp] {
            const char * out = getenv("VERIF_GOLDEN_OUT");
            if (!out) {
                infra_exit("VERIF_GOLDEN_OUT unset");
            }
            model::Desc d = model::Desc::parse(fp->descriptor);
            rc_campaign_json(
                "golden-write/" + fp->id, 1, 100, rc::gen::map(rc::gen::exec([d] { return draw_case(d, 0); }), [](Case && c) { return c.to_json(); }),
                [fp, out](const json & j) -> Verdict {
                    Case c = Case::from_json(j);
                    auto s = fp->build(c.cfg, c.ext, c.data);
                    json g{{"type", fp->type_name}, {"cfg", s->configs()}, {"extents", c.ext}, {"data", c.data}, {"storage", s->storage()}, {"bytes_hex", hex(s->dump())}};
                    std::ofstream o(std::string(out) + "/" + fp->id + ".json");
                    o << g.dump(1) << "\n";
                    return std::nullopt;
                }
            );
        },
        [](const json &) { return std::nullopt; }
    );
});
}   // namespace
