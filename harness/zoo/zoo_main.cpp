// Engine E2 driver: one binary linking the generated stack TUs (adapter side), the
// reference interpreter (model side) and the rapidcheck runtime. The property being
// decided is selected with VERIF_ZOO_MODE (C02, C06, C17, ...): see the mode files.
#include "zoo_driver.hpp"

namespace zoo {
std::vector<Factory> & registry()
{
    static std::vector<Factory> r;
    return r;
}
}   // namespace zoo

namespace zd {
std::map<std::string, ModeFn> & modes()
{
    static std::map<std::string, ModeFn> m;
    return m;
}
}   // namespace zd

namespace {
void register_all()
{
    const char * mode = getenv("VERIF_ZOO_MODE");
    if (!mode || !zd::modes().count(mode)) {
        vf::infra_exit(std::string("VERIF_ZOO_MODE unset or unknown: ") + (mode ? mode : "(null)"));
    }
    auto & fn = zd::modes()[mode];
    // deterministic order independent of link order
    std::sort(zoo::registry().begin(), zoo::registry().end(), [](const zoo::Factory & a, const zoo::Factory & b) { return a.id < b.id; });
    for (const zoo::Factory & f : zoo::registry()) {
        fn(f);
    }
}
}   // namespace
VF_MAIN(register_all)
