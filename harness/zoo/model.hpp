// Engine E2: reference interpreter for layer stacks. No covfie include.
// Evaluates a stack *descriptor* (produced by the generator from its own grammar)
// over runtime configurations, storage contents and a coordinate, layer by layer
// from the one-line definition of each layer. All arithmetic is done in long double
// and every intermediate that the library would hold in a narrower type must be
// exactly representable there; otherwise the case is outside the exact domain and
// is reported as such (never compared).
#pragma once
#include <nlohmann/json.hpp>

#include <cmath>
#include <cstdint>
#include <cstring>
#include <optional>
#include <string>
#include <vector>

namespace model {
using json = nlohmann::json;
typedef long double ld;
using Words = std::vector<uint64_t>;

enum class Sc { f32, f64, i32, u32, i64, u64 };
inline Sc scalar_of(const std::string & s)
{
    if (s == "float") return Sc::f32;
    if (s == "double") return Sc::f64;
    if (s == "int") return Sc::i32;
    if (s == "unsigned") return Sc::u32;
    if (s == "long") return Sc::i64;
    return Sc::u64;   // size_t
}
inline bool is_real(Sc s) { return s == Sc::f32 || s == Sc::f64; }
inline ld decode(uint64_t w, Sc s)
{
    switch (s) {
        case Sc::f32: {
            uint32_t u = uint32_t(w);
            float f;
            std::memcpy(&f, &u, 4);
            return f;
        }
        case Sc::f64: {
            double d;
            std::memcpy(&d, &w, 8);
            return d;
        }
        case Sc::i32: return ld(int32_t(uint32_t(w)));
        case Sc::u32: return ld(uint32_t(w));
        case Sc::i64: return ld(int64_t(w));
        default: return ld(w);
    }
}
// is v exactly representable in scalar type s?
inline bool fits(ld v, Sc s)
{
    if (std::isnan(v)) {
        return false;
    }
    switch (s) {
        case Sc::f32: return ld(float(v)) == v;
        case Sc::f64: return ld(double(v)) == v;
        case Sc::i32: return v == std::floor(v) && v >= -2147483648.0L && v <= 2147483647.0L;
        case Sc::u32: return v == std::floor(v) && v >= 0 && v <= 4294967295.0L;
        case Sc::i64: return v == std::floor(v) && v >= -9223372036854775808.0L && v <= 9223372036854775807.0L;
        default: return v == std::floor(v) && v >= 0 && v <= 18446744073709551615.0L;
    }
}
inline uint64_t encode(ld v, Sc s)
{
    uint64_t w = 0;
    switch (s) {
        case Sc::f32: {
            float f = float(v);
            std::memcpy(&w, &f, 4);
            break;
        }
        case Sc::f64: {
            double d = double(v);
            std::memcpy(&w, &d, 8);
            break;
        }
        case Sc::i32: {
            int32_t i = int32_t(v);
            std::memcpy(&w, &i, 4);
            break;
        }
        case Sc::u32: {
            uint32_t i = uint32_t(v);
            std::memcpy(&w, &i, 4);
            break;
        }
        case Sc::i64: {
            int64_t i = int64_t(v);
            std::memcpy(&w, &i, 8);
            break;
        }
        default: w = uint64_t(v);
    }
    return w;
}

// exponent of the least significant set bit of v (v != 0)
inline int lowbit(ld v)
{
    int e;
    ld m = std::frexp(std::fabs(v), &e);
    uint64_t mi = uint64_t(std::ldexp(m, 64));
    return e - 64 + __builtin_ctzll(mi);
}
inline int mant_bits(Sc s) { return s == Sc::f32 ? 24 : s == Sc::f64 ? 53 : 63; }

struct Layer {
    std::string kind;
    size_t N = 0, M = 0;
    Sc in = Sc::u64, out = Sc::f32;
    bool ref = false;
    std::vector<size_t> perm;
    Sc target = Sc::f32;
};
struct Desc {
    std::vector<Layer> layers;   // outermost first
    size_t view_size = 0;
    static Desc parse(const std::string & s)
    {
        Desc d;
        json j = json::parse(s);
        d.view_size = j.value("view_size", 0);
        for (auto & l : j.at("layers")) {
            Layer x;
            x.kind = l.at("kind");
            x.N = l.at("N");
            x.M = l.at("M");
            x.in = scalar_of(l.at("in"));
            x.out = scalar_of(l.at("out"));
            x.ref = l.at("ref");
            if (l.contains("perm")) {
                x.perm = l.at("perm").get<std::vector<size_t>>();
            }
            if (l.contains("target")) {
                x.target = scalar_of(l.at("target"));
            }
            d.layers.push_back(x);
        }
        return d;
    }
    int find(const std::string & kind) const
    {
        for (size_t i = 0; i < layers.size(); ++i) {
            if (layers[i].kind == kind) {
                return int(i);
            }
        }
        return -1;
    }
    bool has_storage() const { return layers.back().kind == "array"; }
};

// why a case is not comparable
struct Outside {
    std::string why;
};
struct Trace {
    bool clamped = false, defaulted = false, permuted = false, cast_changed = false, interpolated = false, affine_moved = false, nn_rounded = false;
    unsigned backend_queries = 0;
};

struct Eval {
    const Desc & d;
    const std::vector<Words> & cfg;   // per layer, outermost first (as handed to the library)
    const Words & ext;                // extents of the storage order layer (if any)
    const Words & data;               // row-major cell contents, M words per cell (if any)
    Trace tr;
    std::optional<Outside> outside;

    void out(const std::string & why)
    {
        if (!outside) {
            outside = Outside{why};
        }
    }
    // value of layer k at coordinate c (exact numbers, c already representable in layer k's input scalar)
    std::vector<ld> at(size_t k, const std::vector<ld> & c)
    {
        const Layer & L = d.layers[k];
        std::vector<ld> bad(L.M, 0);
        if (outside) {
            return bad;
        }
        if (L.kind == "identity") {
            tr.backend_queries++;
            return c;
        }
        if (L.kind == "constant") {
            tr.backend_queries++;
            std::vector<ld> v;
            for (size_t j = 0; j < L.M; ++j) {
                v.push_back(decode(cfg[k].at(j), L.out));
            }
            return v;
        }
        if (L.kind == "strided" || L.kind == "morton" || L.kind == "hilbert") {
            // storage order + array jointly: a plain N-D array
            tr.backend_queries++;
            uint64_t rank = 0;
            for (size_t a = 0; a < L.N; ++a) {
                if (!(c[a] >= 0 && c[a] < ld(ext[a]) && c[a] == std::floor(c[a]))) {
                    out("integer coordinate outside the extents of the storage");
                    return bad;
                }
                rank = rank * ext[a] + uint64_t(c[a]);
            }
            std::vector<ld> v;
            for (size_t j = 0; j < L.M; ++j) {
                v.push_back(decode(data.at(rank * L.M + j), L.out));
            }
            return v;
        }
        if (L.kind == "clamp") {
            std::vector<ld> y(c);
            for (size_t a = 0; a < L.N; ++a) {
                ld lo = decode(cfg[k].at(a), L.in), hi = decode(cfg[k].at(L.N + a), L.in);
                if (!(lo <= hi)) {
                    out("clamp box with lo > hi");
                    return bad;
                }
                if (y[a] < lo) {
                    y[a] = lo;
                    tr.clamped = true;
                } else if (y[a] > hi) {
                    y[a] = hi;
                    tr.clamped = true;
                }
            }
            return at(k + 1, y);
        }
        if (L.kind == "backup") {
            for (size_t a = 0; a < L.N; ++a) {
                ld lo = decode(cfg[k].at(a), L.in), hi = decode(cfg[k].at(L.N + a), L.in);
                if (c[a] < lo || c[a] > hi) {
                    tr.defaulted = true;
                    std::vector<ld> v;
                    for (size_t j = 0; j < L.M; ++j) {
                        v.push_back(decode(cfg[k].at(2 * L.N + j), L.out));
                    }
                    return v;
                }
            }
            return at(k + 1, c);
        }
        if (L.kind == "shuffle") {
            std::vector<ld> y(L.N);
            for (size_t a = 0; a < L.N; ++a) {
                y[a] = c[L.perm[a]];   // backend coordinate a is input coordinate perm[a]
                if (L.perm[a] != a) {
                    tr.permuted = true;
                }
            }
            return at(k + 1, y);
        }
        if (L.kind == "dereference") {
            return at(k + 1, c);
        }
        if (L.kind == "covariant_cast") {
            std::vector<ld> v = at(k + 1, c);
            const Sc from = d.layers[k + 1].out;
            for (auto & x : v) {
                ld y;
                if (is_real(L.target)) {
                    y = (L.target == Sc::f32) ? ld(float(x)) : ld(double(x));   // rounds to nearest
                } else {
                    y = std::trunc(x);                                          // static_cast to integer truncates
                    if (!fits(y, L.target)) {
                        out("cast of a value outside the target integer range");
                        return bad;
                    }
                }
                if (y != x || from != L.target) {
                    tr.cast_changed = true;
                }
                x = y;
            }
            return v;
        }
        if (L.kind == "affine") {
            std::vector<ld> y(L.N);
            for (size_t i = 0; i < L.N; ++i) {
                ld t = 0;
                for (size_t j = 0; j <= L.N; ++j) {
                    ld a = decode(cfg[k].at(i * (L.N + 1) + j), L.in);
                    ld p = a * (j < L.N ? c[j] : 1.0L);
                    if (!fits(p, L.in)) {
                        out("affine product not exact in the coordinate type");
                        return bad;
                    }
                    t += p;
                    if (!fits(t, L.in)) {
                        out("affine sum not exact in the coordinate type");
                        return bad;
                    }
                }
                y[i] = t;
                if (t != c[i]) {
                    tr.affine_moved = true;
                }
            }
            return at(k + 1, y);
        }
        if (L.kind == "nearest_neighbour") {
            const Sc idx = d.layers[k + 1].in;
            std::vector<ld> y(L.N);
            for (size_t a = 0; a < L.N; ++a) {
                if (std::fabs(c[a] - std::floor(c[a])) == 0.5L) {
                    // an exact tie: either neighbour is a nearest lattice point (C04); no particular choice is demanded
                    out("nearest-neighbour coordinate exactly half way between two lattice points");
                    return bad;
                }
                ld r = std::rint(c[a]);
                if (!(std::fabs(r) < 0x1p62L)) {
                    out("nearest-neighbour coordinate beyond the range of long");
                    return bad;
                }
                if (r != c[a]) {
                    tr.nn_rounded = true;
                }
                if (!is_real(idx) && !fits(r, idx)) {
                    // e.g. -1 converted to an unsigned index: wraps to a huge value -> outside any storage
                    out("rounded coordinate not representable in the backend's index type");
                    return bad;
                }
                if (is_real(idx) && !fits(r, idx)) {
                    out("rounded coordinate not exact in the backend's coordinate type");
                    return bad;
                }
                y[a] = r;
            }
            return at(k + 1, y);
        }
        if (L.kind == "linear") {
            const Sc idx = d.layers[k + 1].in;
            const Sc T = L.out;      // output scalar = backend's output scalar
            const Sc R = L.in;       // arithmetic is done in the coordinate scalar
            std::vector<ld> base(L.N), fr(L.N);
            for (size_t a = 0; a < L.N; ++a) {
                if (!(c[a] >= 0)) {
                    out("negative coordinate below a linear interpolator");
                    return bad;
                }
                base[a] = std::trunc(c[a]);
                fr[a] = c[a] - base[a];
                if (!fits(base[a], idx) || !fits(base[a] + 1, idx) || !fits(1 - fr[a], R)) {
                    out("interpolation cell not representable");
                    return bad;
                }
                if (fr[a] != 0) {
                    tr.interpolated = true;
                }
            }
            std::vector<ld> acc(L.M, 0), mag(L.M, 0);
            std::vector<int> quantum(L.M, 100000);
            const int mant = std::min(mant_bits(R), mant_bits(T));
            for (uint64_t n = 0; n < (uint64_t(1) << L.N); ++n) {
                ld w = 1;
                std::vector<ld> y(L.N);
                for (size_t a = 0; a < L.N; ++a) {
                    bool up = (n >> a) & 1;
                    w *= up ? fr[a] : 1 - fr[a];
                    if (!fits(w, R)) {
                        out("interpolation weight not exact");
                        return bad;
                    }
                    y[a] = base[a] + (up ? 1 : 0);
                }
                std::vector<ld> v = at(k + 1, y);   // all 2^N neighbours are read, also those with weight 0
                if (outside) {
                    return bad;
                }
                for (size_t q = 0; q < L.M; ++q) {
                    if (!fits(v[q], R)) {
                        out("lattice value not exact in the coordinate precision");
                        return bad;
                    }
                    ld p = w * v[q];
                    acc[q] += p;
                    mag[q] += std::fabs(p);
                    if (p != 0) {
                        quantum[q] = std::min(quantum[q], lowbit(p));
                    }
                    if (!fits(p, R)) {
                        out("interpolation product not exact");
                        return bad;
                    }
                }
            }
            for (size_t q = 0; q < L.M; ++q) {
                // every term is a multiple of 2^quantum; if the sum of magnitudes stays below
                // 2^(quantum + mantissa bits) every partial sum in ANY order is exact in R and in T
                if (mag[q] != 0 && !(mag[q] < std::ldexp(1.0L, quantum[q] + mant))) {
                    out("interpolation sum not exact in every summation order");
                    return bad;
                }
                if (!fits(acc[q], R) || !fits(acc[q], T)) {
                    out("interpolation result not exact");
                    return bad;
                }
            }
            return acc;
        }
        out("unknown layer kind " + L.kind);
        return bad;
    }
};
}   // namespace model
