// Engine E5: libFuzzer target over the stream constructor of ONE stack type (the stack
// TU registered by ZOO_REGISTER is linked in). Semantic oracle inside the target:
//   * bytes that the independent reference parser accepts as a dump of this type must load;
//   * bytes it does not accept must be rejected with an exception (never a crash / field);
//   * a loaded field re-dumps to a grammatical stream with the same configuration words,
//     the same payload when the stored width matches, and dump(load(dump)) == dump.
// Element counts above 2^16 are excluded (ASan aborts instead of throwing bad_alloc).
#include "istack.hpp"
#include "refformat.hpp"

#include <cstdio>
#include <sstream>

namespace zoo {
std::vector<Factory> & registry()
{
    static std::vector<Factory> r;
    return r;
}
}   // namespace zoo

namespace {
[[noreturn]] void violation(const char * what)
{
    fprintf(stderr, "FUZZ-ORACLE-VIOLATION: %s\n", what);
    fflush(nullptr);
    __builtin_trap();
}
unsigned long g_execs = 0, g_loaded = 0, g_excluded = 0;
void stats()
{
    fprintf(stderr, "FUZZ-STATS execs=%lu loaded=%lu excluded_absurd_count=%lu\n", g_execs, g_loaded, g_excluded);
}
}   // namespace

extern "C" int LLVMFuzzerTestOneInput(const uint8_t * data, size_t size)
{
    static const zoo::Factory & f = zoo::registry().at(0);
    static const model::Desc d = model::Desc::parse(f.descriptor);
    static std::unique_ptr<zoo::IStack> blank = f.blank();
    static bool once = (atexit(stats), true);
    (void)once;
    ++g_execs;
    const std::string bytes(reinterpret_cast<const char *>(data), size);
    reff::Parser p{bytes, d};
    const bool grammatical = p.parse();
    if (p.out.count_offset != 0 && p.out.count_offset + 8 <= bytes.size()) {
        uint64_t n;
        std::memcpy(&n, bytes.data() + p.out.count_offset, 8);
        if (n > (1u << 16)) {
            ++g_excluded;
            return 0;
        }
    }
    std::unique_ptr<zoo::IStack> s;
    std::istringstream is(bytes);
    try {
        s = blank->load(is);
    } catch (const std::exception &) {
        if (grammatical) {
            violation("a grammatical dump of this type was rejected");
        }
        return 0;
    }
    if (!grammatical) {
        violation("bytes that are not a grammatical dump of this type were accepted and a field was returned");
    }
    ++g_loaded;
    const std::string second = s->dump();
    reff::Parser q{second, d};
    if (!q.parse() || q.out.consumed != second.size()) {
        violation("the re-dump of a loaded field is not grammatical");
    }
    const int arr = d.find("array");
    for (size_t k = 0; k < d.layers.size(); ++k) {
        if (int(k) != arr && q.out.cfg[k] != p.out.cfg[k]) {
            violation("configuration words changed between the loaded stream and the re-dump");
        }
    }
    if (arr >= 0 && q.out.count != p.out.count) {
        violation("element count changed between the loaded stream and the re-dump");
    }
    if (arr >= 0 && p.out.width == q.out.width && p.out.data != q.out.data) {
        violation("payload changed although the stored width is the same");
    }
    if (arr < 0 || p.out.width == q.out.width) {
        if (second != bytes.substr(0, p.out.consumed)) {
            violation("the re-dump differs from the consumed prefix of the input");
        }
    }
    std::istringstream is2(second);
    std::unique_ptr<zoo::IStack> t = blank->load(is2);
    if (t->dump() != second) {
        violation("dump(load(dump)) differs from dump");
    }
    return 0;
}
