// Shared pieces of the zoo driver: case type, region-propagating generators.
#pragma once
#include "../common.hpp"
#include "istack.hpp"
#include "model.hpp"

#include <algorithm>
#include <map>

namespace zd {
using namespace vf;
using zoo::Words;
using model::Sc;
typedef long double ld;

using ModeFn = std::function<void(const zoo::Factory &)>;
std::map<std::string, ModeFn> & modes();
struct ModeReg {
    ModeReg(const char * name, ModeFn f) { modes()[name] = std::move(f); }
};

struct Case {
    std::vector<Words> cfg;     // per layer, outermost first
    Words ext;                  // extents of the storage order (empty if none)
    Words data;                 // row-major contents, M words per cell
    std::vector<Words> coords;
    json to_json() const { return json{{"cfg", cfg}, {"extents", ext}, {"data", data}, {"coords", coords}}; }
    static Case from_json(const json & j)
    {
        Case c;
        c.cfg = j.at("cfg").get<std::vector<Words>>();
        c.ext = j.at("extents").get<Words>();
        c.data = j.at("data").get<Words>();
        c.coords = j.at("coords").get<std::vector<Words>>();
        return c;
    }
};

// per-axis closed interval of coordinates a layer accepts (exact numbers)
struct Iv {
    ld lo, hi;
};
using Region = std::vector<Iv>;

inline ld grid_of(Sc s) { return model::is_real(s) ? 0.25L : 1.0L; }
inline ld snap_down(ld v, ld g) { return std::floor(v / g) * g; }
inline ld snap_up(ld v, ld g) { return std::ceil(v / g) * g; }
inline ld lowest_of(Sc s) { return (s == Sc::u32 || s == Sc::u64) ? 0.0L : -1e9L; }

// value on the grid inside [lo,hi], boundary-biased
inline ld draw_in(ld lo, ld hi, ld g)
{
    lo = snap_up(lo, g);
    hi = snap_down(hi, g);
    if (!(lo < hi)) {
        return lo;
    }
    unsigned k = *in_range<unsigned>(0, 5);
    if (k == 0) {
        return lo;
    }
    if (k == 1) {
        return hi;
    }
    uint64_t steps = uint64_t((hi - lo) / g);
    return lo + g * ld(*in_range<uint64_t>(0, steps));
}

// Generates configurations inside-out so that the region of in-domain coordinates of
// every layer is known by construction; then coordinates from the outermost region.
// Must be called inside a rapidcheck generator (uses *gen).
inline Case draw_case(const model::Desc & d, unsigned ncoords, bool allow_empty = false)
{
    Case c;
    const size_t L = d.layers.size();
    c.cfg.assign(L, {});
    std::vector<Region> reg(L);
    bool has_linear = d.find("linear") >= 0;
    // an outermost affine layer may be a shear (unit triangular, not a scaled permutation): its pre-image of a box is
    // not a box, so coordinates are then obtained by solving A x + t = y exactly for targets y drawn beneath it
    bool shear = false, shear_lower = true;
    std::vector<std::vector<ld>> shear_a;
    std::vector<ld> shear_t;
    for (size_t k = L; k-- > 0;) {
        const model::Layer & l = d.layers[k];
        const ld g = grid_of(l.in);
        if (l.kind == "array") {
            continue;
        }
        if (l.kind == "identity" || l.kind == "constant") {
            reg[k].assign(l.N, Iv{std::max<ld>(lowest_of(l.in), -16), 16});
            if (l.kind == "constant") {
                for (size_t j = 0; j < l.M; ++j) {
                    c.cfg[k].push_back(model::encode(ld(*in_range<int>(model::is_real(l.out) || l.out == Sc::i32 || l.out == Sc::i64 ? -1024 : 0, 1024)), l.out));
                }
            }
            continue;
        }
        if (l.kind == "strided" || l.kind == "morton" || l.kind == "hilbert") {
            uint64_t cells = 1;
            for (size_t a = 0; a < l.N; ++a) {
                uint64_t e = *in_range<uint64_t>(has_linear ? 2 : 1, l.N <= 2 ? 6 : l.N == 3 ? 4 : 3);
                if (allow_empty && *in_range<unsigned>(0, 11) == 0) {
                    e = 0;   // an empty field is a field: its configuration must read back as well
                }
                c.ext.push_back(e);
                c.cfg[k].push_back(e);
                reg[k].push_back(Iv{0, ld(e - 1)});
                cells *= e;
            }
            // stored values: integers in +-2^10 (exact in every scalar type involved)
            for (uint64_t i = 0; i < cells * l.M; ++i) {
                c.data.push_back(model::encode(ld(*in_range<int>(-1024, 1024)), l.out));
            }
            c.cfg[k + 1] = {cells};   // informational: the array layer's own configuration
            continue;
        }
        const Region & in = reg[k + 1];
        if (l.kind == "clamp" || l.kind == "backup") {
            Words lo, hi;
            Region r;
            for (size_t a = 0; a < l.N; ++a) {
                ld x = draw_in(in[a].lo, in[a].hi, g), y = draw_in(in[a].lo, in[a].hi, g);
                if (y < x) {
                    std::swap(x, y);
                }
                lo.push_back(model::encode(x, l.in));
                hi.push_back(model::encode(y, l.in));
                // any coordinate is acceptable above a clamp / default layer
                r.push_back(Iv{std::max(lowest_of(l.in), in[a].lo - 6), in[a].hi + 6});
            }
            c.cfg[k] = lo;
            c.cfg[k].insert(c.cfg[k].end(), hi.begin(), hi.end());
            if (l.kind == "backup") {
                for (size_t j = 0; j < l.M; ++j) {
                    bool neg_ok = model::is_real(l.out) || l.out == Sc::i32 || l.out == Sc::i64;
                    c.cfg[k].push_back(model::encode(ld(*in_range<int>(neg_ok ? -2000 : 1025, 2000)), l.out));
                }
            }
            reg[k] = r;
            continue;
        }
        if (l.kind == "shuffle") {
            reg[k].assign(l.N, Iv{0, 0});
            for (size_t a = 0; a < l.N; ++a) {
                reg[k][l.perm[a]] = in[a];
            }
            // components never read by the permutation stay free; with a true permutation none are
            continue;
        }
        if (l.kind == "dereference" || l.kind == "covariant_cast") {
            reg[k] = in;
            continue;
        }
        if (l.kind == "nearest_neighbour") {
            for (size_t a = 0; a < l.N; ++a) {
                reg[k].push_back(Iv{in[a].lo - 0.25L, in[a].hi + 0.25L});
            }
            continue;
        }
        if (l.kind == "linear") {
            for (size_t a = 0; a < l.N; ++a) {
                ld lo = std::max<ld>(in[a].lo, 0), hi = in[a].hi - 1;   // base and base+1 must both be acceptable below
                if (hi < lo) {
                    hi = lo;   // degenerate: the model will reject what is not in the domain
                    reg[k].push_back(Iv{lo, hi});
                } else {
                    reg[k].push_back(Iv{lo, hi + 0.75L});
                }
            }
            continue;
        }
        if (l.kind == "affine" && k == 0 && l.N >= 2 && *in_range<unsigned>(0, 2) == 0) {
            shear = true;
            shear_lower = *in_range<unsigned>(0, 1) == 0;
            shear_a.assign(l.N, std::vector<ld>(l.N, 0));
            shear_t.assign(l.N, 0);
            c.cfg[k].assign(l.N * (l.N + 1), model::encode(0, l.in));
            bool any = false;
            for (size_t i = 0; i < l.N; ++i) {
                for (size_t j = 0; j < l.N; ++j) {
                    ld a = (i == j) ? 1 : 0;
                    if ((shear_lower && j < i) || (!shear_lower && j > i)) {
                        a = ld(*in_range<int>(-1, 1));
                        any = any || a != 0;
                    }
                    shear_a[i][j] = a;
                }
            }
            if (!any) {
                shear_a[shear_lower ? l.N - 1 : 0][shear_lower ? 0 : l.N - 1] = 1;
            }
            for (size_t i = 0; i < l.N; ++i) {
                shear_t[i] = ld(*in_range<int>(-8, 8)) / 4;
                for (size_t j = 0; j < l.N; ++j) {
                    c.cfg[k][i * (l.N + 1) + j] = model::encode(shear_a[i][j], l.in);
                }
                c.cfg[k][i * (l.N + 1) + l.N] = model::encode(shear_t[i], l.in);
            }
            reg[k] = in;   // unused
            continue;
        }
        if (l.kind == "affine") {
            // signed, scaled permutation matrix (exactly invertible in dyadics) and a dyadic translation
            std::vector<size_t> p(l.N);
            for (size_t a = 0; a < l.N; ++a) {
                p[a] = a;
            }
            for (size_t a = l.N; a > 1; --a) {
                std::swap(p[a - 1], p[*in_range<size_t>(0, a - 1)]);
            }
            c.cfg[k].assign(l.N * (l.N + 1), model::encode(0, l.in));
            reg[k].assign(l.N, Iv{0, 0});
            for (size_t i = 0; i < l.N; ++i) {
                static const ld scales[] = {1, 1, -1, 2, 0.5L, -2};
                ld s = scales[*in_range<unsigned>(0, 5)];
                ld t = ld(*in_range<int>(-8, 8)) / 4;
                if (!model::is_real(l.in)) {
                    s = (s == 0.5L) ? 1 : s;
                    t = std::floor(t);
                }
                c.cfg[k][i * (l.N + 1) + p[i]] = model::encode(s, l.in);
                c.cfg[k][i * (l.N + 1) + l.N] = model::encode(t, l.in);
                // y_i = s * x_{p[i]} + t must lie in in[i]
                ld a0 = (in[i].lo - t) / s, a1 = (in[i].hi - t) / s;
                reg[k][p[i]] = Iv{std::min(a0, a1), std::max(a0, a1)};
            }
            continue;
        }
        infra_exit("draw_case: unknown layer kind " + l.kind);
    }
    const model::Layer & top = d.layers[0];
    const ld g = grid_of(top.in);
    for (unsigned n = 0; n < ncoords && shear; ++n) {
        // target beneath the shear, then exact solution of the unit-triangular system
        std::vector<ld> y(top.N), x(top.N, 0);
        for (size_t a = 0; a < top.N; ++a) {
            y[a] = draw_in(reg[1][a].lo, std::max(reg[1][a].lo, reg[1][a].hi), g);
        }
        for (size_t step = 0; step < top.N; ++step) {
            size_t i = shear_lower ? step : top.N - 1 - step;
            ld v = y[i] - shear_t[i];
            for (size_t j = 0; j < top.N; ++j) {
                if (j != i) {
                    v -= shear_a[i][j] * x[j];
                }
            }
            x[i] = v;
        }
        Words w;
        for (size_t a = 0; a < top.N; ++a) {
            w.push_back(model::encode(x[a], top.in));
        }
        c.coords.push_back(w);
    }
    for (unsigned n = 0; n < ncoords && !shear; ++n) {
        Words x;
        // double coordinates: every third coordinate lies on a 2^-10 grid, where interpolation weights need up to 30
        // bits (exact in double, not in float); the model refuses whatever is not exact for the stack at hand
        // ... and every sixth has components 2^-30 beside a half-integer (a rounding tie of a nearest-neighbour layer in
        // double, no tie any more once the coordinate has passed through float)
        const unsigned sel = top.in == Sc::f64 ? *in_range<unsigned>(0, 5) : 5;
        const ld gg = sel <= 1 ? g / 256 : g;
        for (size_t a = 0; a < top.N; ++a) {
            ld lo = std::max(reg[0][a].lo, lowest_of(top.in)), hi = reg[0][a].hi;
            ld v = draw_in(lo, std::max(lo, hi), gg);
            if (sel == 2) {
                ld t = std::floor(draw_in(lo, std::max(lo, hi), g)) + 0.5L + (*in_range<unsigned>(0, 1) ? 0x1p-30L : -0x1p-30L);
                if (t >= lo && t <= hi) {
                    v = t;
                }
            }
            x.push_back(model::encode(v, top.in));
        }
        c.coords.push_back(x);
    }
    return c;
}
}   // namespace zd
