// C13 (run-time half): every generated well-kinded stack was compiled against the whole
// field API by its adapter TU (compile verdict = the build of this binary). Here the
// same API is executed once per generated input: default construction, parameter-pack
// construction, views, lookup, copy/move construction and assignment, dump, load,
// rebuild - plus the static facts (backend concept, trivially copyable view, view size).
#include "zoo_driver.hpp"

#include <sstream>

namespace {
using namespace zd;

struct Ctx {
    const zoo::Factory * f;
    model::Desc d;
    std::string inst;
};

Verdict run(const Ctx & x, const Case & c)
{
    const zoo::Factory & f = *x.f;
    if (!f.satisfies_concept) {
        return std::string("stack does not satisfy concepts::field_backend");
    }
    if (!f.view_trivially_copyable) {
        return std::string("field_view of the stack is not trivially copyable");
    }
    if (f.view_size > 256) {
        return "sizeof(non_owning_data_t) is " + std::to_string(f.view_size) + " bytes: views must not exceed 256 bytes";
    }
    if (f.view_size != x.d.view_size) {
        label("view size differs from the generator's layout model (informational)");
    }
    std::unique_ptr<zoo::IStack> a = f.build(c.cfg, c.ext, c.data);
    const std::string bytes = a->dump();
    digest(x.inst, bytes.data(), bytes.size());
    std::unique_ptr<zoo::IStack> b = a->clone();                 // copy construction
    std::unique_ptr<zoo::IStack> m = b->move_out();              // move construction
    std::unique_ptr<zoo::IStack> blank = f.blank();              // default construction
    blank->copy_assign(*m);                                      // copy assignment into a default-constructed field
    std::unique_ptr<zoo::IStack> blank2 = a->default_constructed();
    blank2->move_assign(*m);                                     // move assignment
    std::istringstream is(bytes);
    std::unique_ptr<zoo::IStack> l = a->load(is);                // stream constructor
    std::unique_ptr<zoo::IStack> r = a->rebuild();               // parameter-pack construction from typed configurations
    for (const zoo::IStack * s : {static_cast<const zoo::IStack *>(a.get()), static_cast<const zoo::IStack *>(blank.get()), static_cast<const zoo::IStack *>(blank2.get()), static_cast<const zoo::IStack *>(l.get()), static_cast<const zoo::IStack *>(r.get())}) {
        if (s->dump() != bytes) {
            return std::string("a copy / assigned / loaded / rebuilt field dumps to different bytes than the original");
        }
    }
    const model::Layer & top = x.d.layers[0];
    for (const Words & xc : c.coords) {
        model::Eval ev{x.d, c.cfg, c.ext, c.data, {}, {}};
        std::vector<ld> cc;
        for (size_t k = 0; k < top.N; ++k) {
            cc.push_back(model::decode(xc.at(k), top.in));
        }
        ev.at(0, cc);
        if (ev.outside) {
            continue;
        }
        Words w = a->at(xc);
        digest(x.inst, w.data(), w.size() * 8);
        if (blank->at(xc) != w || blank2->at_variadic(xc) != w || l->at(xc) != w || r->at(xc) != w) {
            return std::string("copies of the field disagree at a generated coordinate");
        }
    }
    Hasher h;
    for (auto & w : c.cfg) {
        h.vec(w);
    }
    h.vec(c.data);
    record(x.inst, x.d.layers.size() >= 2, h.h, [&] {
        json j = json{{"type", f.type_name}, {"api", "default/pack/copy/move construction, copy/move assignment, view, at (both forms), dump, load, get_configuration chain"}};
        return j;
    });
    return std::nullopt;
}

ModeReg reg("C13", [](const zoo::Factory & f) {
    auto ctx = std::make_shared<Ctx>();
    ctx->f = &f;
    ctx->d = model::Desc::parse(f.descriptor);
    ctx->inst = "zoo/" + f.id;
    add_inst(
        ctx->inst,
        [ctx] {
            auto g = rc::gen::exec([ctx] { return draw_case(ctx->d, 2); });
            rc_campaign<Case>(ctx->inst, tier(20, 200), 100, g, [ctx](const Case & c) { return run(*ctx, c); });
        },
        [ctx](const json & j) { return run(*ctx, Case::from_json(j)); }
    );
});
}   // namespace
