// Runtime of the E1 harnesses (see common.hpp). Compiled once per tree key.
#include "common.hpp"
#include <cfenv>

#include <csignal>
#include <ctime>
#include <fstream>
#include <unistd.h>
#include <unordered_set>

#if defined(__SANITIZE_ADDRESS__) || defined(__SANITIZE_THREAD__)
#include <sanitizer/common_interface_defs.h>
#define VF_HAVE_SAN_CB 1
#endif
// When the property TU is sanitised but this TU is not, the callback is
// installed through a weak reference to the runtime's symbol.
extern "C" void __sanitizer_set_death_callback(void (*)(void)) __attribute__((weak));

namespace vf {
std::string bits_hex_u64(uint64_t u, int bytes)
{
    char buf[32];
    snprintf(buf, sizeof buf, "0x%0*llx", 2 * bytes, (unsigned long long)u);
    return buf;
}
std::string ld_str(ld v)
{
    char buf[64];
    snprintf(buf, sizeof buf, "%.21Lg", v);
    return buf;
}

Options & opt()
{
    static Options o;
    return o;
}

namespace {
struct Stats {
    uint64_t evaluations = 0;
    uint64_t excluded = 0;
    uint64_t bulk_nontrivial = 0;
    std::unordered_set<uint64_t> nontrivial;
    std::map<std::string, uint64_t> labels;
    std::map<std::string, uint64_t> per_inst;
    std::map<std::string, uint64_t> per_inst_nontrivial;
    std::map<std::string, int> samples_per_inst;
    std::vector<json> samples;
    std::vector<std::string> exhaustive;
    std::vector<std::string> notes;
    std::map<std::string, uint64_t> digests;
    bool shrinking = false;
};
Stats & stats()
{
    static Stats s;
    return s;
}
struct Inst {
    std::string name;
    std::function<void()> campaign;
    std::function<Verdict(const json &)> replay;
};
std::vector<Inst> & insts()
{
    static std::vector<Inst> v;
    return v;
}
CaseScope *& current_scope()
{
    static CaseScope * p = nullptr;
    return p;
}
}   // namespace

void label(const char * l)
{
    if (!stats().shrinking) {
        stats().labels[l]++;
    }
}
void note(const std::string & s)
{
    stats().notes.push_back(s);
}
void note_exhaustive(const std::string & s)
{
    stats().exhaustive.push_back(s);
}
void count_excluded(uint64_t n)
{
    stats().excluded += n;
}
bool record_case(const std::string & inst, bool nontrivial, uint64_t key)
{
    Stats & s = stats();
    if (s.shrinking) {
        return false;
    }
    s.evaluations++;
    s.per_inst[inst]++;
    if (nontrivial) {
        if (s.nontrivial.insert(mix(key, fnv(inst))).second) {
            s.per_inst_nontrivial[inst]++;
        }
    }
    int n = s.samples_per_inst[inst];
    // first non-trivial case of each instantiation, then a thin deterministic trickle
    if (nontrivial && s.samples.size() < 60 && (n == 0 || (n < 3 && (mix(key, 77) % 509) == 0))) {
        return true;
    }
    return false;
}
void add_sample(const std::string & inst, json j)
{
    Stats & s = stats();
    j["inst"] = inst;
    s.samples.push_back(std::move(j));
    s.samples_per_inst[inst]++;
}
void record_bulk(const std::string & inst, uint64_t evaluations, uint64_t distinct_nontrivial)
{
    Stats & s = stats();
    s.evaluations += evaluations;
    s.per_inst[inst] += evaluations;
    s.bulk_nontrivial += distinct_nontrivial;
    s.per_inst_nontrivial[inst] += distinct_nontrivial;
}

void digest(const std::string & inst, const void * p, size_t n)
{
    Stats & s = stats();
    if (s.shrinking) {
        return;
    }
    auto it = s.digests.find(inst);
    uint64_t h = it == s.digests.end() ? 1469598103934665603ULL : it->second;
    s.digests[inst] = fnv(p, n, h);
}

void write_stats()
{
    if (opt().out.empty()) {
        return;
    }
    Stats & s = stats();
    json j;
    j["evaluations"] = s.evaluations;
    j["distinct_nontrivial"] = s.nontrivial.size() + s.bulk_nontrivial;
    j["excluded_not_compared"] = s.excluded;
    j["labels"] = s.labels;
    j["per_inst"] = s.per_inst;
    j["per_inst_nontrivial"] = s.per_inst_nontrivial;
    j["samples"] = s.samples;
    j["exhaustive"] = s.exhaustive;
    j["notes"] = s.notes;
    json dg = json::object();
    for (auto & kv : s.digests) {
        dg[kv.first] = bits_hex_u64(kv.second, 8);
    }
    j["digests"] = dg;
    std::ofstream f(opt().out);
    f << j.dump(1) << "\n";
}

// The floating-point status flags are ambient thread state that earlier, unrelated operations of a program leave
// behind; results must not depend on them. Every other case starts with all flags raised, the others with all flags
// clear (no traps are enabled, raising a flag has no effect of its own). A replay runs its case in both states.
void ambient_fp_flags(bool raised)
{
    if (raised) {
        std::feraiseexcept(FE_ALL_EXCEPT);
    } else {
        std::feclearexcept(FE_ALL_EXCEPT);
    }
}

CaseScope::CaseScope(std::function<json()> f)
    : dump(std::move(f))
    , prev(current_scope())
{
    static unsigned long counter = 0;
    if (prev == nullptr) {
        ambient_fp_flags((counter++ & 1) != 0);
    }
    current_scope() = this;
}
CaseScope::~CaseScope()
{
    current_scope() = prev;
}

namespace {
void write_replay(const json & c, const std::string & msg)
{
    if (opt().replay_out.empty()) {
        return;
    }
    json j = c;
    j["message"] = msg;
    std::ofstream f(opt().replay_out);
    f << j.dump(1) << "\n";
}
void on_death()
{
    static bool once = false;
    if (once) {
        return;
    }
    once = true;
    if (current_scope()) {
        json c = current_scope()->dump();
        if (death_refine()) {
            json r = death_refine()();
            for (auto it = r.begin(); it != r.end(); ++it) {
                c[it.key()] = it.value();
            }
        }
        c["died"] = true;
        write_replay(c, "process died while executing this case (assertion / sanitizer report; see log)");
    }
    write_stats();
}
void on_abort(int)
{
    on_death();
    signal(SIGABRT, SIG_DFL);
    _exit(134);
}
void on_segv(int)
{
    on_death();
    signal(SIGSEGV, SIG_DFL);
    _exit(139);
}
void install_death_hooks()
{
    if (__sanitizer_set_death_callback) {
        __sanitizer_set_death_callback(on_death);
    } else {
        signal(SIGSEGV, on_segv);
    }
    signal(SIGABRT, on_abort);
}
}   // namespace

std::function<json()> & death_refine()
{
    static std::function<json()> f;
    return f;
}

void fail_exit(const json & c, const std::string & msg)
{
    write_replay(c, msg);
    write_stats();
    fprintf(stderr, "FAIL: %s\ncase: %s\n", msg.c_str(), c.dump().c_str());
    fflush(nullptr);
    _exit(1);
}
void infra_exit(const std::string & msg)
{
    fprintf(stderr, "HARNESS-ERROR: %s\n", msg.c_str());
    fflush(nullptr);
    _exit(3);
}

// An exception that leaves the code under test while a case executes (the oracles catch the ones a contract allows) is a
// result of that case, not an infrastructure problem.
template <class F>
Verdict guarded(F && f)
{
    try {
        return f();
    } catch (const rc::GenerationFailure &) {
        throw;   // rapidcheck's own control flow
    } catch (const std::exception & e) {
        return std::string("an exception escaped the operations of this case: ") + e.what();
    }
}

void add_inst(std::string name, std::function<void()> campaign, std::function<Verdict(const json &)> replay)
{
    insts().push_back({std::move(name), std::move(campaign), std::move(replay)});
}

void run_explicit_json(const std::string & inst, const std::function<json()> & dump, const std::function<Verdict()> & run)
{
    CaseScope sc([&] {
        json j = dump();
        j["inst"] = inst;
        return j;
    });
    Verdict v = guarded(run);
    if (v) {
        json j = dump();
        j["inst"] = inst;
        fail_exit(j, *v);
    }
}

void rc_campaign_json(const std::string & inst, int cases, int max_size, rc::Gen<json> gen, std::function<Verdict(const json &)> run)
{
    rc::detail::TestParams params;
    params.seed = mix(opt().seed, fnv(inst));
    params.maxSuccess = cases;
    params.maxSize = max_size;
    params.maxDiscardRatio = 10;
    rc::detail::TestMetadata md;
    md.id = inst;
    md.description = inst;
    std::optional<std::pair<json, std::string>> last_fail;
    // Shrinking budget: after the first failure at most 400 further executions (and 120 s) are spent on
    // shrinking; beyond that every candidate is declared passing without being run, which ends rapidcheck's
    // search. This bounds the time spent on very large cases; it affects minimality only, never the verdict.
    unsigned shrink_runs = 0;
    const time_t shrink_deadline_unset = 0;
    time_t shrink_deadline = shrink_deadline_unset;
    auto res = rc::detail::checkTestable(
        [&] {
            if (stats().shrinking && last_fail) {
                if (shrink_deadline == shrink_deadline_unset) {
                    shrink_deadline = time(nullptr) + 120;
                }
                if (++shrink_runs > 400 || time(nullptr) > shrink_deadline) {
                    // budget used up: report the smallest failing case found so far (generation of a
                    // candidate alone can be expensive for very large cases, so the search is cut here)
                    last_fail->first["shrinking"] = "stopped after the shrinking budget (400 candidates / 120 s)";
                    last_fail->first["rc_seed"] = params.seed;
                    fail_exit(last_fail->first, last_fail->second);
                }
            }
            json c = *gen;
            c["inst"] = inst;
            CaseScope sc([&] { return c; });
            Verdict v = guarded([&] { return run(c); });
            if (v) {
                last_fail = std::make_pair(c, *v);
                stats().shrinking = true;   // everything after the first failure is shrinking
                RC_FAIL(*v);
            }
        },
        md,
        params
    );
    stats().shrinking = false;
    if (res.template is<rc::detail::SuccessResult>()) {
        return;
    }
    if (res.template is<rc::detail::FailureResult>()) {
        const auto & f = res.template get<rc::detail::FailureResult>();
        if (!last_fail) {
            infra_exit("rapidcheck reported a failure that the property did not record: " + f.description);
        }
        std::ostringstream os;
        os << f.reproduce;
        last_fail->first["rc_reproduce"] = os.str();
        last_fail->first["rc_seed"] = params.seed;
        fail_exit(last_fail->first, last_fail->second);
    }
    std::ostringstream os;
    rc::detail::printResultMessage(res, os);
    infra_exit("rapidcheck gave up / errored in " + inst + ": " + os.str());
}

rc::Gen<uint64_t> in_range_u64(uint64_t lo, uint64_t hi)
{
    if (lo >= hi) {
        return rc::gen::just(lo);
    }
    if (hi == ~uint64_t(0)) {
        return rc::gen::resize(100, rc::gen::map(rc::gen::arbitrary<uint64_t>(), [lo](uint64_t x) { return x < lo ? lo : x; }));
    }
    return rc::gen::resize(1000, rc::gen::inRange<uint64_t>(lo, hi + 1));
}
rc::Gen<int64_t> in_range_i64(int64_t lo, int64_t hi)
{
    if (lo >= hi) {
        return rc::gen::just(lo);
    }
    if (hi == INT64_MAX) {
        return rc::gen::resize(100, rc::gen::map(rc::gen::arbitrary<int64_t>(), [lo](int64_t x) { return x < lo ? lo : x; }));
    }
    return rc::gen::resize(1000, rc::gen::inRange<int64_t>(lo, hi + 1));
}

int harness_main(int argc, char ** argv)
{
    Options & o = opt();
    for (int i = 1; i < argc; ++i) {
        std::string a = argv[i];
        auto next = [&] {
            if (i + 1 >= argc) {
                infra_exit("missing value for " + a);
            }
            return std::string(argv[++i]);
        };
        if (a == "--out") {
            o.out = next();
        } else if (a == "--replay-out") {
            o.replay_out = next();
        } else if (a == "--replay-in") {
            o.replay_in = next();
        } else if (a == "--list") {
            for (auto & in : insts()) {
                printf("%s\n", in.name.c_str());
            }
            return 0;
        } else {
            infra_exit("unknown argument " + a);
        }
    }
    if (const char * t = getenv("VERIF_TIER")) {
        o.tier = t;
    }
    if (const char * s = getenv("VERIF_SEED")) {
        o.seed = strtoull(s, nullptr, 10);
    }
    if (const char * s = getenv("VERIF_SHARD")) {
        if (sscanf(s, "%d/%d", &o.shard_i, &o.shard_n) != 2 || o.shard_n < 1) {
            infra_exit("bad VERIF_SHARD");
        }
    }
    if (const char * s = getenv("VERIF_KNOWN")) {
        std::string k;
        std::istringstream is(s);
        while (std::getline(is, k, ';')) {
            if (!k.empty()) {
                o.known.insert(k);
            }
        }
    }
    install_death_hooks();
    if (!o.replay_in.empty()) {
        std::ifstream f(o.replay_in);
        if (!f) {
            infra_exit("cannot open replay " + o.replay_in);
        }
        json c = json::parse(f);
        std::string inst = c.at("inst").get<std::string>();
        for (auto & in : insts()) {
            if (in.name == inst) {
                CaseScope sc([&] { return c; });
                for (bool raised : {false, true}) {
                    ambient_fp_flags(raised);
                    Verdict v = guarded([&] { return in.replay(c); });
                    if (v) {
                        fail_exit(c, *v);
                    }
                }
                fprintf(stderr, "REPLAY-PASS %s\n", inst.c_str());
                return 0;
            }
        }
        infra_exit("replay names unknown instantiation " + inst);
    }
    int k = 0;
    for (auto & in : insts()) {
        if ((k++ % o.shard_n) != o.shard_i) {
            continue;
        }
        try {
            in.campaign();
        } catch (const std::exception & e) {
            // an exception that escapes while a case is executing comes from the code under test (in-domain operations
            // do not throw); one that escapes outside any case is a harness problem
            if (current_scope()) {
                fail_exit(current_scope()->dump(), std::string("uncaught exception: ") + e.what());
            }
            infra_exit(std::string("uncaught exception outside any case in ") + in.name + ": " + e.what());
        }
    }
    write_stats();
    return 0;
}
}   // namespace vf
