// Shared harness runtime for the rapidcheck (E1) harnesses: declarations and thin
// templates. The heavy parts (argument handling, statistics, JSON output, the
// rapidcheck driver) live in common.cpp, which is compiled once.
//
// Protocol with bin/check (vlib/driver.py):
//   harness --out <stats.json> --replay-out <case.json> [--replay-in <case.json>]
//   env: VERIF_TIER=quick|thorough  VERIF_SEED=<int>  VERIF_SHARD=i/n
//        VERIF_KNOWN=<key;key;...>  (open known findings: excluded by construction)
//   exit 0: every explored case satisfied the oracle
//   exit 1: a case failed; the explicit (shrunk) case is in --replay-out
//   exit 3: harness / infrastructure problem (never a property verdict)
//   any other exit: abort / sanitizer report; --replay-out holds the case that
//   was executing (written by the death callback), stderr holds the report.
#pragma once
#include <nlohmann/json.hpp>
#include <rapidcheck.h>

#include <cstdint>
#include <cstdio>
#include <cstdlib>
#include <cstring>
#include <functional>
#include <map>
#include <optional>
#include <set>
#include <sstream>
#include <string>
#include <type_traits>
#include <vector>

namespace vf {
using json = nlohmann::json;
typedef long double ld;

// ---------------------------------------------------------------- hashing
inline uint64_t fnv(const void * p, size_t n, uint64_t h = 1469598103934665603ULL)
{
    const unsigned char * b = static_cast<const unsigned char *>(p);
    for (size_t i = 0; i < n; ++i) {
        h ^= b[i];
        h *= 1099511628211ULL;
    }
    return h;
}
inline uint64_t fnv(const std::string & s, uint64_t h = 1469598103934665603ULL)
{
    return fnv(s.data(), s.size(), h);
}
struct Hasher {
    uint64_t h = 1469598103934665603ULL;
    template <class T>
    Hasher & pod(const T & v)
    {
        static_assert(std::is_trivially_copyable_v<T>);
        h = fnv(&v, sizeof(T), h);
        return *this;
    }
    Hasher & str(const std::string & s)
    {
        h = fnv(s, h);
        uint64_t n = s.size();
        return pod(n);
    }
    template <class T>
    Hasher & vec(const std::vector<T> & v)
    {
        for (const auto & x : v) {
            pod(x);
        }
        uint64_t n = v.size();
        return pod(n);
    }
};
inline uint64_t mix(uint64_t a, uint64_t b)
{
    uint64_t x = a * 0x9E3779B97F4A7C15ULL ^ (b + 0xBF58476D1CE4E5B9ULL);
    x ^= x >> 31;
    x *= 0x94D049BB133111EBULL;
    x ^= x >> 29;
    return x;
}

// bit-pattern helpers (values cross JSON as hex strings, never as decimals)
std::string bits_hex_u64(uint64_t u, int bytes);
template <class T>
std::string bits_hex(T v)
{
    static_assert(sizeof(T) <= 8);
    uint64_t u = 0;
    std::memcpy(&u, &v, sizeof(T));
    return bits_hex_u64(u, int(sizeof(T)));
}
template <class T>
T from_bits_hex(const std::string & s)
{
    uint64_t u = strtoull(s.c_str(), nullptr, 16);
    T v;
    std::memcpy(&v, &u, sizeof(T));
    return v;
}
std::string ld_str(ld v);

// ---------------------------------------------------------------- options
struct Options {
    std::string out, replay_out, replay_in;
    std::string tier = "quick";
    uint64_t seed = 1;
    int shard_i = 0, shard_n = 1;
    std::set<std::string> known;
    bool thorough() const { return tier == "thorough"; }
};
Options & opt();
template <class T>
T tier(T quick, T thorough)
{
    return opt().thorough() ? thorough : quick;
}

// ---------------------------------------------------------------- stats
void label(const char * l);
void note(const std::string & s);
void note_exhaustive(const std::string & s);
void count_excluded(uint64_t n = 1);
// One executed case. key = hash of its canonical encoding. Returns true when the
// caller should supply a sample (then call add_sample).
bool record_case(const std::string & inst, bool nontrivial, uint64_t key);
void add_sample(const std::string & inst, json j);
template <class F>
void record(const std::string & inst, bool nontrivial, uint64_t key, F && sample)
{
    if (record_case(inst, nontrivial, key)) {
        add_sample(inst, sample());
    }
}
// bulk accounting for tight enumeration loops (cases are distinct by construction)
void record_bulk(const std::string & inst, uint64_t evaluations, uint64_t distinct_nontrivial);
void write_stats();
// E7: running digest of every observable result of an instantiation (values read, dump bytes);
// compared across build configurations by the driver
void digest(const std::string & inst, const void * p, size_t n);

// ---------------------------------------------------------------- current case / failure
struct CaseScope {
    std::function<json()> dump;
    CaseScope * prev;
    explicit CaseScope(std::function<json()> f);
    ~CaseScope();
};
// Tight enumeration loops point this at a function returning the single element
// being executed, so that an abort inside the loop still yields a minimal case.
std::function<json()> & death_refine();
struct RefineScope {
    explicit RefineScope(std::function<json()> f) { death_refine() = std::move(f); }
    ~RefineScope() { death_refine() = nullptr; }
};
[[noreturn]] void fail_exit(const json & c, const std::string & msg);
[[noreturn]] void infra_exit(const std::string & msg);

// ---------------------------------------------------------------- instantiation registry
using Verdict = std::optional<std::string>;   // nullopt = oracle satisfied
void add_inst(std::string name, std::function<void()> campaign, std::function<Verdict(const json &)> replay);

// Run one explicit (enumerated) case given as JSON.
void run_explicit_json(const std::string & inst, const std::function<json()> & dump, const std::function<Verdict()> & run);

// rapidcheck campaign over JSON-encoded cases; all randomness comes from `gen`,
// seeded from VERIF_SEED and the instantiation name. On failure the shrunk case
// (the last failing execution of the property) becomes the explicit replay.
void rc_campaign_json(const std::string & inst, int cases, int max_size, rc::Gen<json> gen, std::function<Verdict(const json &)> run);

template <class Case, class Run>
void run_explicit(const std::string & inst, const Case & c, Run && run)
{
    run_explicit_json(
        inst, [&] { return c.to_json(); }, [&] { return run(c); }
    );
}
template <class Case, class Run>
void rc_campaign(const std::string & inst, int cases, int max_size, rc::Gen<Case> gen, Run && run)
{
    rc_campaign_json(
        inst, cases, max_size, rc::gen::map(std::move(gen), [](Case && c) { return c.to_json(); }), [run](const json & j) { return run(Case::from_json(j)); }
    );
}

// rapidcheck's inRange collapses at small sizes: always draw at full size.
rc::Gen<uint64_t> in_range_u64(uint64_t lo, uint64_t hi_inclusive);
rc::Gen<int64_t> in_range_i64(int64_t lo, int64_t hi_inclusive);
template <class T>
rc::Gen<T> in_range(T lo, T hi_inclusive)
{
    if constexpr (std::is_signed_v<T>) {
        return rc::gen::map(in_range_i64(lo, hi_inclusive), [](int64_t v) { return T(v); });
    } else {
        return rc::gen::map(in_range_u64(lo, hi_inclusive), [](uint64_t v) { return T(v); });
    }
}

int harness_main(int argc, char ** argv);
}   // namespace vf

#define VF_MAIN(register_fn)                                                   \
    int main(int argc, char ** argv)                                           \
    {                                                                          \
        register_fn();                                                         \
        return vf::harness_main(argc, argv);                                   \
    }
