// C14: storage orders follow their published curves.
//  row-major: position = sum_k c_k * prod_{l>k} N_l
//  Morton:    bit interleave, first coordinate least significant; BMI2 == portable
//  Hilbert:   bijection of the 2^k x 2^k square onto [0,4^k), origin first,
//             consecutive positions in edge-adjacent cells
// Observed through the layers stacked on identity<size1> (the lookup returns the
// flat position) and through the static index functions.
#include "common.hpp"
#include "cov.hpp"
#include "ref.hpp"

namespace {
using namespace vf;
using ID = cb::identity<cv::size1>;

struct Case {
    std::string kind;
    std::vector<uint64_t> ext;
    std::vector<std::vector<uint64_t>> coords;   // empty: every coordinate of the box
    json to_json() const { return json{{"kind", kind}, {"extents", ext}, {"coords", coords}}; }
    static Case from_json(const json & j)
    {
        Case c;
        c.kind = j.at("kind");
        c.ext = j.at("extents").get<std::vector<uint64_t>>();
        c.coords = j.at("coords").get<std::vector<std::vector<uint64_t>>>();
        return c;
    }
};

std::string cstr(const std::vector<uint64_t> & c)
{
    std::ostringstream os;
    os << "(";
    for (size_t i = 0; i < c.size(); ++i) {
        os << (i ? "," : "") << c[i];
    }
    os << ")";
    return os.str();
}

template <class F>
void for_box(const std::vector<uint64_t> & ext, F && f)
{
    std::vector<uint64_t> c(ext.size(), 0);
    for (auto e : ext) {
        if (e == 0) {
            return;
        }
    }
    while (true) {
        f(c);
        size_t k = ext.size();
        while (k > 0 && c[k - 1] + 1 == ext[k - 1]) {
            c[--k] = 0;
        }
        if (k == 0) {
            break;
        }
        c[k - 1]++;
    }
}

// ---------------------------------------------------------------- row-major
template <class I, size_t N>
struct RowMajor {
    using B = cb::strided<cv::vector_d<I, N>, ID>;
    static std::string name() { return std::string("rowmajor/I=") + tname<I>() + "/N=" + std::to_string(N); }
    static Verdict run(const Case & c)
    {
        typename B::configuration_t e;
        bool distinct = N >= 2;
        for (size_t k = 0; k < N; ++k) {
            e[k] = c.ext[k];
            for (size_t l = 0; l < k; ++l) {
                distinct = distinct && c.ext[k] != c.ext[l];
            }
        }
        covfie::field<B> f(pack(e, std::monostate{}));
        typename covfie::field<B>::view_t v(f);
        Verdict bad;
        uint64_t n = 0;
        auto one = [&](const std::vector<uint64_t> & cc) {
            if (bad) {
                return;
            }
            typename covfie::field<B>::coordinate_t x;
            for (size_t k = 0; k < N; ++k) {
                x[k] = I(cc[k]);
            }
            uint64_t got = v.at(x)[0];
            ref::u128 want = ref::row_major(cc, c.ext);
            ++n;
            if (ref::u128(got) != want) {
                bad = "row-major position of " + cstr(cc) + " in extents " + cstr(c.ext) + " is " + std::to_string(got) + ", formula gives " + std::to_string(uint64_t(want));
            }
        };
        ref::u128 cells = 1;
        for (auto x : c.ext) {
            cells *= x;
        }
        if (c.coords.empty() && cells <= (uint64_t(1) << 22)) {
            for_box(c.ext, one);
        } else {
            for (auto & cc : c.coords) {
                one(cc);
            }
        }
        Hasher h;
        h.vec(c.ext);
        for (auto & cc : c.coords) {
            h.vec(cc);
        }
        record(name(), distinct, h.h, [&] { return c.to_json(); });
        record_bulk(name() + "/positions", n, distinct ? n : 0);
        return bad;
    }
    static void campaign()
    {
        static const uint64_t Bq[] = {0, 64, 24, 9, 5}, Bt[] = {0, 300, 64, 16, 8};
        const uint64_t B = tier(Bq[N], Bt[N]);
        std::vector<uint64_t> e(N, 1);
        uint64_t n = 0;
        while (true) {
            run_explicit(name(), Case{"rowmajor", e, {}}, run);
            ++n;
            size_t k = 0;
            while (k < N && e[k] == B) {
                e[k++] = 1;
            }
            if (k == N) {
                break;
            }
            e[k]++;
        }
        note_exhaustive(name() + ": all " + std::to_string(n) + " extent vectors with extents in 1.." + std::to_string(B) + ", every coordinate");
        // beyond the bound: large extents (no storage is allocated over identity), sampled coordinates
        const uint64_t cap = std::is_same_v<I, std::size_t> ? (uint64_t(1) << (60 / N)) : (uint64_t(1) << (30 / N));
        auto g = rc::gen::mapcat(rc::gen::container<std::vector<uint64_t>>(N, rc::gen::oneOf(in_range<uint64_t>(1, 40), in_range<uint64_t>(1, cap))), [](std::vector<uint64_t> ext) {
            std::vector<rc::Gen<uint64_t>> gs;
            auto coord = rc::gen::exec([ext] {
                std::vector<uint64_t> c;
                for (auto e : ext) {
                    c.push_back(*rc::gen::oneOf(rc::gen::element<uint64_t>(0, e - 1, e / 2), in_range<uint64_t>(0, e - 1)));
                }
                return c;
            });
            return rc::gen::map(rc::gen::container<std::vector<std::vector<uint64_t>>>(8, coord), [ext](std::vector<std::vector<uint64_t>> cs) { return Case{"rowmajor", ext, cs}; });
        });
        rc_campaign<Case>(name(), tier(400, 20000), 100, g, run);
    }
    static void reg()
    {
        add_inst(name(), campaign, [](const json & j) { return run(Case::from_json(j)); });
    }
};

// ---------------------------------------------------------------- Morton
// IX: the index scalar of the backend beneath the layer (the type positions are computed in); size_t by default,
// `unsigned long long` (same width, another type) and `long` (63 value bits: axis k holds coordinates whose top bit still
// lands below bit 63) as further instantiations
template <class I, size_t N, bool BMI, class IX = std::size_t>
struct Morton {
    using B = cb::morton<cv::vector_d<I, N>, cb::identity<cv::vector_d<IX, 1>>, BMI>;
    static uint64_t lim_of(size_t k)
    {
        unsigned bits = BITS;
        if (std::is_signed_v<IX>) {
            bits = std::min<unsigned>(bits, unsigned((62 - k) / N + 1));
        }
        return bits >= 64 ? ~uint64_t(0) - 1 : (uint64_t(1) << bits) - 1;
    }
    static constexpr unsigned BITS = (64 / N) < (8 * sizeof(I) - (std::is_signed_v<I> ? 1 : 0)) ? (64 / N) : (8 * sizeof(I) - (std::is_signed_v<I> ? 1 : 0));
    static std::string name() { return std::string("morton/") + (BMI ? "bmi2" : "portable") + "/I=" + tname<I>() + "/N=" + std::to_string(N) + (std::is_same_v<IX, std::size_t> ? "" : std::is_same_v<IX, long> ? "/index=long" : "/index=unsigned long long"); }
    static Verdict run(const Case & c)
    {
        // extents just large enough to contain every coordinate (the layer asserts c < extent)
        typename B::configuration_t e;
        for (size_t k = 0; k < N; ++k) {
            e[k] = c.ext[k];
        }
        covfie::field<B> f(pack(e, std::monostate{}));
        typename covfie::field<B>::view_t v(f);
        Verdict bad;
        uint64_t n = 0, nt = 0;
        auto one = [&](const std::vector<uint64_t> & cc) {
            if (bad) {
                return;
            }
            typename covfie::field<B>::coordinate_t x;
            bool high = false;
            for (size_t k = 0; k < N; ++k) {
                x[k] = I(cc[k]);
                high = high || (cc[k] >> 8) != 0;
            }
            uint64_t want = uint64_t(ref::morton(cc));
            uint64_t got_static = B::calculate_index(x);
            uint64_t got_layer = uint64_t(v.at(x)[0]);
            ++n;
            nt += high;
            if (got_static != want || got_layer != want) {
                std::ostringstream os;
                os << "Morton position of " << cstr(cc) << ": calculate_index=" << got_static << " layer lookup=" << got_layer << ", bit interleave=" << want;
                bad = os.str();
            }
        };
        ref::u128 cells = 1;
        for (auto x : c.ext) {
            cells *= x;
        }
        if (c.coords.empty() && cells <= (uint64_t(1) << 22)) {
            for_box(c.ext, one);
        } else {
            for (auto & cc : c.coords) {
                one(cc);
            }
        }
        Hasher h;
        h.vec(c.ext);
        for (auto & cc : c.coords) {
            h.vec(cc);
        }
        record(name(), nt > 0, h.h, [&] { return c.to_json(); });
        record_bulk(name() + "/positions", n, nt);
        return bad;
    }
    static Case with_coords(std::vector<std::vector<uint64_t>> cs)
    {
        Case c;
        c.kind = "morton";
        c.ext.assign(N, 1);
        for (auto & cc : cs) {
            for (size_t k = 0; k < N; ++k) {
                c.ext[k] = std::max(c.ext[k], cc[k] + 1);
            }
        }
        c.coords = std::move(cs);
        return c;
    }
    static void campaign()
    {
        if (BMI && !have_bmi2()) {
            note(name() + ": skipped, CPU without BMI2");
            return;
        }
        // every coordinate with at most b bits per axis
        const unsigned b = tier<unsigned>(N == 1 ? 12 : N == 2 ? 6 : N == 3 ? 4 : 4, N == 1 ? 20 : N == 2 ? 10 : N == 3 ? 7 : 5);
        run_explicit(name(), Case{"morton", std::vector<uint64_t>(N, uint64_t(1) << b), {}}, run);
        note_exhaustive(name() + ": every coordinate with at most " + std::to_string(b) + " bits per axis");
        // boundary bit patterns on every axis combination: single bits, 2^k-1, alternating masks
        const uint64_t lim = BITS == 64 ? ~uint64_t(0) - 1 : (uint64_t(1) << BITS) - 1;   // extents are size_t: the largest in-range coordinate is 2^64-2
        std::vector<uint64_t> pats{0, lim, 0x5555555555555555ULL & lim, 0xAAAAAAAAAAAAAAAAULL & lim, 0x3333333333333333ULL & lim, 0x0F0F0F0F0F0F0F0FULL & lim};
        for (unsigned k = 0; k < BITS; ++k) {
            pats.push_back(uint64_t(1) << k);
            pats.push_back((uint64_t(1) << k) - 1);
        }
        std::vector<std::vector<uint64_t>> cs;
        // every pattern on one axis with every "background" on the others
        for (size_t ax = 0; ax < N; ++ax) {
            for (uint64_t p : pats) {
                for (uint64_t bg : {uint64_t(0), lim, uint64_t(0x5555555555555555ULL & lim)}) {
                    std::vector<uint64_t> c(N, bg);
                    c[ax] = p;
                    for (size_t k = 0; k < N; ++k) {
                        c[k] &= lim_of(k);
                    }
                    cs.push_back(c);
                }
            }
        }
        run_explicit(name(), with_coords(cs), run);
        auto coord = rc::gen::container<std::vector<uint64_t>>(
            N, rc::gen::map(rc::gen::pair(rc::gen::arbitrary<uint64_t>(), in_range<unsigned>(0, BITS)), [lim](std::pair<uint64_t, unsigned> p) { return (p.second >= 64 ? p.first : (p.first & ((uint64_t(1) << p.second) - 1))) & lim; })
        );
        rc_campaign<Case>(name(), tier(1500, 60000), 100, rc::gen::map(rc::gen::container<std::vector<std::vector<uint64_t>>>(8, coord), [](std::vector<std::vector<uint64_t>> cs) {
            for (auto & c : cs) {
                for (size_t k = 0; k < N; ++k) {
                    c[k] &= lim_of(k);
                }
            }
            return with_coords(std::move(cs));
        }), run);
    }
    static void reg()
    {
        add_inst(name(), campaign, [](const json & j) { return run(Case::from_json(j)); });
    }
};

// ---------------------------------------------------------------- Hilbert
#ifndef VF_NO_HILBERT
template <class I>
struct Hilbert {
    using B = cb::hilbert<cv::vector_d<I, 2>, ID>;
    static std::string name() { return std::string("hilbert/I=") + tname<I>(); }
    static Verdict run(const Case & c)
    {
        const uint64_t side = c.ext[0];
        typename B::configuration_t e{side, side};
        covfie::field<B> f(pack(e, std::monostate{}));
        typename covfie::field<B>::view_t v(f);
        const uint64_t cells = side * side;
        // position -> cell (filled through the layer), checked as a validity predicate
        std::vector<uint32_t> cell_of(cells, UINT32_MAX);
        for (uint64_t x = 0; x < side; ++x) {
            for (uint64_t y = 0; y < side; ++y) {
                typename covfie::field<B>::coordinate_t cc{I(x), I(y)};
                uint64_t p = v.at(cc)[0];
                uint64_t ps = B::calculate_index(cc, e);
                if (p != ps) {
                    return "layer lookup and calculate_index disagree at " + cstr({x, y});
                }
                if (p >= cells) {
                    return "position " + std::to_string(p) + " of cell " + cstr({x, y}) + " is outside [0," + std::to_string(cells) + ")";
                }
                if (cell_of[p] != UINT32_MAX) {
                    return "cells " + cstr({cell_of[p] / side, cell_of[p] % side}) + " and " + cstr({x, y}) + " share position " + std::to_string(p);
                }
                cell_of[p] = uint32_t(x * side + y);
            }
        }
        if (cell_of[0] != 0) {
            return "position 0 is at cell " + cstr({cell_of[0] / side, cell_of[0] % side}) + ", not at the origin";
        }
        for (uint64_t p = 0; p + 1 < cells; ++p) {
            int64_t x0 = cell_of[p] / side, y0 = cell_of[p] % side, x1 = cell_of[p + 1] / side, y1 = cell_of[p + 1] % side;
            if (std::llabs(x0 - x1) + std::llabs(y0 - y1) != 1) {
                return "positions " + std::to_string(p) + " and " + std::to_string(p + 1) + " are at cells " + cstr({uint64_t(x0), uint64_t(y0)}) + " and " + cstr({uint64_t(x1), uint64_t(y1)}) + ", which are not edge-adjacent";
            }
        }
        Hasher h;
        h.pod(side);
        record(name(), side >= 4, h.h, [&] { return c.to_json(); });
        record_bulk(name() + "/cells", cells, side >= 4 ? cells : 0);
        return std::nullopt;
    }
    static void campaign()
    {
        for (unsigned k = 0; k <= 10; ++k) {
            run_explicit(name(), Case{"hilbert", {uint64_t(1) << k, uint64_t(1) << k}, {}}, run);
        }
        note_exhaustive(name() + ": every cell of the 2^k x 2^k square for every k in 0..10");
    }
    static void reg()
    {
        add_inst(name(), campaign, [](const json & j) { return run(Case::from_json(j)); });
    }
};
#endif

// ---------------------------------------------------------------- where a converted field stores its cells
// "stores coordinate c at flat position p(c)" also holds for a field obtained by conversion from another storage order:
// the destination's array, read directly, holds cell c at the published position (row-major formula / bit interleave).
template <Lay LS, Lay LD, size_t N>
struct Stored {
    using IV = cv::vector_d<std::size_t, N>;
    using A = cb::array<cv::vector_d<float, 1>>;
    using S0 = cb::strided<IV, A>;
    using S = layout_t<LS, IV, A>;
    using D = layout_t<LD, IV, A>;
    static std::string name() { return std::string("stored/") + lay_name(LS) + "->" + lay_name(LD) + "/N=" + std::to_string(N); }
    static Verdict run(const Case & c)
    {
        if ((LS == Lay::morton_bmi2 || LD == Lay::morton_bmi2) && !have_bmi2()) {
            return std::nullopt;
        }
        typename S0::configuration_t e;
        uint64_t cells = 1;
        for (size_t k = 0; k < N; ++k) {
            e[k] = c.ext[k];
            cells *= c.ext[k];
        }
        covfie::field<S0> s0(pack(e));
        {
            typename covfie::field<S0>::view_t v(s0);
            for_box(c.ext, [&](const std::vector<uint64_t> & cc) {
                typename covfie::field<S0>::coordinate_t x;
                for (size_t k = 0; k < N; ++k) {
                    x[k] = cc[k];
                }
                v.at(x)[0] = float(uint64_t(ref::row_major(cc, c.ext)) + 1);   // < 2^24: exact
            });
        }
        covfie::field<S> src(s0);
        covfie::field<D> dst(src);
        const auto & arr = dst.backend().get_backend();
        const uint64_t len = arr.get_configuration()[0];
        typename A::non_owning_data_t raw(arr);
        Verdict bad;
        for_box(c.ext, [&](const std::vector<uint64_t> & cc) {
            if (bad) {
                return;
            }
            uint64_t p = LD == Lay::strided ? uint64_t(ref::row_major(cc, c.ext)) : uint64_t(ref::morton(cc));
            if (p >= len) {
                bad = "published position " + std::to_string(p) + " of " + cstr(cc) + " lies beyond the destination's array (length " + std::to_string(len) + ")";
                return;
            }
            float got = raw.at(p)[0], want = float(uint64_t(ref::row_major(cc, c.ext)) + 1);
            if (got != want) {
                bad = "converted field: the array element at the published position " + std::to_string(p) + " of cell " + cstr(cc) + " holds " + ld_str(got) + ", the cell's value is " + ld_str(want);
            }
        });
        Hasher h;
        h.vec(c.ext);
        bool pow2 = true;
        for (auto x : c.ext) {
            pow2 = pow2 && (x & (x - 1)) == 0;
        }
        record(name(), !pow2 && N >= 2, h.h, [&] { return c.to_json(); });
        return bad;
    }
    static void campaign()
    {
        // extents: a cell cap of 2^18 (allocation side^N for Morton), one long axis allowed; odd and composite extents up to 600
        const uint64_t mx = N == 1 ? 600 : N == 2 ? 600 : N == 3 ? 60 : 22;
        auto g = rc::gen::map(rc::gen::container<std::vector<uint64_t>>(N, in_range<uint64_t>(1, mx)), [](std::vector<uint64_t> ext) {
            uint64_t cells = 1;
            for (auto x : ext) {
                cells *= x;
            }
            while (cells > (uint64_t(1) << 18)) {
                size_t k = size_t(std::max_element(ext.begin(), ext.end()) - ext.begin());
                cells /= ext[k];
                ext[k] = (ext[k] + 1) / 2;
                cells *= ext[k];
            }
            Case c;
            c.kind = "stored";
            c.ext = ext;
            return c;
        });
        rc_campaign<Case>(name(), tier(150, 4000), 100, g, run);
    }
    static void reg()
    {
        add_inst(name(), campaign, [](const json & j) { return run(Case::from_json(j)); });
    }
};

void register_all()
{
    Stored<Lay::strided, Lay::morton_port, 2>::reg();
    Stored<Lay::strided, Lay::morton_bmi2, 2>::reg();
    Stored<Lay::morton_port, Lay::strided, 2>::reg();
    Stored<Lay::strided, Lay::morton_port, 3>::reg();
    Stored<Lay::morton_bmi2, Lay::strided, 3>::reg();
    Stored<Lay::hilbert, Lay::strided, 2>::reg();
    Stored<Lay::strided, Lay::strided, 4>::reg();
    Stored<Lay::strided, Lay::morton_bmi2, 4>::reg();
    Stored<Lay::strided, Lay::morton_port, 1>::reg();
    RowMajor<std::size_t, 1>::reg();
    RowMajor<std::size_t, 2>::reg();
    RowMajor<std::size_t, 3>::reg();
    RowMajor<std::size_t, 4>::reg();
    RowMajor<unsigned, 2>::reg();
    RowMajor<int, 3>::reg();
    RowMajor<unsigned, 4>::reg();
    Morton<std::size_t, 1, true>::reg();
    Morton<std::size_t, 2, true>::reg();
    Morton<std::size_t, 3, true>::reg();
    Morton<std::size_t, 4, true>::reg();
    Morton<std::size_t, 1, false>::reg();
    Morton<std::size_t, 2, false>::reg();
    Morton<std::size_t, 3, false>::reg();
    Morton<std::size_t, 4, false>::reg();
    Morton<unsigned, 2, true>::reg();
    Morton<unsigned, 3, false>::reg();
    Morton<int, 2, false>::reg();
    Morton<int, 4, true>::reg();
#ifndef VF_NO_HILBERT
    Hilbert<std::size_t>::reg();
    Hilbert<unsigned>::reg();
    Hilbert<int>::reg();
    Hilbert<uint16_t>::reg();   // coordinates < 1024 fit; positions (up to 4^10) do not: they must not be computed in the coordinate type
    Morton<uint16_t, 2, false>::reg();
    Morton<uint16_t, 4, true>::reg();
    // other index scalars beneath the layer
    Morton<std::size_t, 2, true, unsigned long long>::reg();
    Morton<std::size_t, 3, false, unsigned long long>::reg();
    Morton<std::size_t, 2, false, long>::reg();
    Morton<std::size_t, 4, true, long>::reg();
    Morton<std::size_t, 3, false, long>::reg();
#endif
}
}   // namespace
VF_MAIN(register_all)
