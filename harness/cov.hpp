// Common covfie includes and small helpers for the harnesses.
#pragma once
#include <memory>
#include <new>
#include <covfie/core/backend/primitive/array.hpp>
#include <covfie/core/backend/primitive/constant.hpp>
#include <covfie/core/backend/primitive/identity.hpp>
#include <covfie/core/backend/transformer/affine.hpp>
#include <covfie/core/backend/transformer/backup.hpp>
#include <covfie/core/backend/transformer/clamp.hpp>
#include <covfie/core/backend/transformer/covariant_cast.hpp>
#include <covfie/core/backend/transformer/dereference.hpp>
#ifndef VF_NO_HILBERT
#include <covfie/core/backend/transformer/hilbert.hpp>
#endif
#ifndef VF_NO_LINEAR
#include <covfie/core/backend/transformer/linear.hpp>
#endif
#include <covfie/core/backend/transformer/morton.hpp>
#include <covfie/core/backend/transformer/nearest_neighbour.hpp>
#include <covfie/core/backend/transformer/shuffle.hpp>
#include <covfie/core/backend/transformer/strided.hpp>
#include <covfie/core/field.hpp>
#include <covfie/core/utility/nd_map.hpp>
#include <covfie/core/utility/numeric.hpp>

#include <string>
#include <typeinfo>
#include <vector>

namespace vf {
namespace cb = covfie::backend;
namespace cv = covfie::vector;

template <class T>
const char * tname()
{
    if constexpr (std::is_same_v<T, float>) return "float";
    else if constexpr (std::is_same_v<T, double>) return "double";
    else if constexpr (std::is_same_v<T, std::size_t>) return "size_t";
    else if constexpr (std::is_same_v<T, unsigned>) return "unsigned";
    else if constexpr (std::is_same_v<T, int>) return "int";
    else if constexpr (std::is_same_v<T, long>) return "long";
    else if constexpr (std::is_same_v<T, uint8_t>) return "uint8";
    else if constexpr (std::is_same_v<T, uint16_t>) return "uint16";
    else if constexpr (std::is_same_v<T, short>) return "short";
    else return typeid(T).name();
}

enum class Lay { strided, morton_bmi2, morton_port, hilbert };
inline const char * lay_name(Lay l)
{
    switch (l) {
        case Lay::strided: return "strided";
        case Lay::morton_bmi2: return "morton_bmi2";
        case Lay::morton_port: return "morton_portable";
        case Lay::hilbert: return "hilbert";
    }
    return "?";
}
template <Lay L, class IV, class B>
struct layout_of;
template <class IV, class B>
struct layout_of<Lay::strided, IV, B> { using type = cb::strided<IV, B>; };
template <class IV, class B>
struct layout_of<Lay::morton_bmi2, IV, B> { using type = cb::morton<IV, B, true>; };
template <class IV, class B>
struct layout_of<Lay::morton_port, IV, B> { using type = cb::morton<IV, B, false>; };
#ifndef VF_NO_HILBERT
template <class IV, class B>
struct layout_of<Lay::hilbert, IV, B> { using type = cb::hilbert<IV, B>; };
#endif
template <Lay L, class IV, class B>
using layout_t = typename layout_of<L, IV, B>::type;

// make_parameter_pack deduces reference types for lvalues; the library's callers
// pass temporaries. This helper takes copies and hands them over as rvalues.
template <class... Ts>
auto pack(Ts... a)
{
    return covfie::make_parameter_pack(std::move(a)...);
}

// an application-defined vector descriptor: the library's vector_descriptor concept asks for nothing more
template <class T, std::size_t M>
struct user_desc {
    using type = T;
    static constexpr std::size_t size = M;
};

// A copy of a view is a view in its own right: after the copy has been taken, the original is made to view another
// field (`other`) and is then destroyed and its memory released. Lookups through the returned copy must still see `f`.
template <class B>
typename covfie::field<B>::view_t detached_view(const covfie::field<B> & f, const covfie::field<B> & other)
{
    using V = typename covfie::field<B>::view_t;
    std::unique_ptr<V> vp = std::make_unique<V>(f);
    V copy(*vp);
    vp->~V();
    new (vp.get()) V(other);
    vp.reset();
    return copy;
}

inline bool have_bmi2()
{
#if defined(__BMI2__)
    return __builtin_cpu_supports("bmi2");
#else
    return false;   // pdep path not compiled in: morton<...,true> is the portable code
#endif
}
}   // namespace vf
