// A user-defined backend that satisfies covfie::concepts::field_backend, counts
// the lookups it receives and remembers the last coordinate. Used to observe
// what a wrapper layer hands to the backend beneath it (C11, C10, C02).
#pragma once
#include <covfie/core/concepts.hpp>
#include <covfie/core/parameter_pack.hpp>
#include <covfie/core/vector.hpp>

#include <iostream>

namespace vf {
struct probe_stats {
    unsigned long queries = 0;
    long double last[8] = {0};
};
template <typename In, typename Out>
struct probe {
    using this_t = probe<In, Out>;
    static constexpr bool is_initial = true;
    using contravariant_input_t = covfie::vector::array_vector_d<In>;
    using covariant_output_t = covfie::vector::array_vector_d<Out>;
    struct configuration_t {
        probe_stats * stats;
    };
    struct owning_data_t {
        using parent_t = this_t;
        probe_stats * m_stats = nullptr;
        owning_data_t() = default;
        explicit owning_data_t(configuration_t c)
            : m_stats(c.stats)
        {
        }
        explicit owning_data_t(covfie::parameter_pack<configuration_t> && p)
            : m_stats(p.x.stats)
        {
        }
        explicit owning_data_t(covfie::parameter_pack<owning_data_t> && p)
            : m_stats(p.x.m_stats)
        {
        }
        configuration_t get_configuration() const { return {m_stats}; }
        static owning_data_t read_binary(std::istream &) { return owning_data_t(); }
        static void write_binary(std::ostream &, const owning_data_t &) {}
    };
    struct non_owning_data_t {
        using parent_t = this_t;
        probe_stats * m_stats;
        non_owning_data_t(const owning_data_t & o)
            : m_stats(o.m_stats)
        {
        }
        // value returned for the q-th query (q counted from 1), component j
        static typename Out::type value(unsigned long q, std::size_t j) { return typename Out::type((q % 4096) * 8 + j + 1); }
        typename covariant_output_t::vector_t at(typename contravariant_input_t::vector_t c) const
        {
            m_stats->queries++;
            for (std::size_t i = 0; i < In::size; ++i) {
                m_stats->last[i] = static_cast<long double>(c[i]);
            }
            typename covariant_output_t::vector_t r;
            for (std::size_t j = 0; j < Out::size; ++j) {
                r[j] = value(m_stats->queries, j);
            }
            return r;
        }
    };
};
}   // namespace vf
