// C09: a field with an affine layer queries its backend at A.x + t; the product of
// two affine transforms applied to a vector equals applying the right factor and
// then the left one; translation / scaling / identity have their textbook meaning.
// Oracles: exact equality on small-integer matrices and vectors (every operation
// exact), binary128 reference with a forward error bound on arbitrary finite floats.
#include "common.hpp"
#include "cov.hpp"
#include "probe_backend.hpp"

#include <cmath>

namespace {
using namespace vf;
typedef __float128 q128;

struct Case {
    bool exact = true;                          // small-integer domain: exact equality
    std::vector<std::vector<uint64_t>> mats;    // k transforms, each N*(N+1) scalars as bit patterns (row-major, last column = translation)
    std::vector<uint64_t> x;
    json to_json() const { return json{{"exact_domain", exact}, {"transforms_bits", mats}, {"x_bits", x}}; }
    static Case from_json(const json & j)
    {
        Case c;
        c.exact = j.at("exact_domain");
        c.mats = j.at("transforms_bits").get<std::vector<std::vector<uint64_t>>>();
        c.x = j.at("x_bits").get<std::vector<uint64_t>>();
        return c;
    }
};

template <class R>
R from_bits(uint64_t b)
{
    R r;
    if constexpr (sizeof(R) == 4) {
        uint32_t u = uint32_t(b);
        std::memcpy(&r, &u, 4);
    } else {
        std::memcpy(&r, &b, 8);
    }
    return r;
}
template <class R>
uint64_t to_bits(R r)
{
    uint64_t u = 0;
    std::memcpy(&u, &r, sizeof(R));
    return u;
}

template <class R>
rc::Gen<uint64_t> gen_scalar(bool exact)
{
    if (exact) {
        return rc::gen::map(in_range<int>(-8, 8), [](int v) { return to_bits<R>(R(v)); });
    }
    // arbitrary finite floats, exponent spread bounded (float 2^+-12, double 2^+-30) so that products of five
    // factors neither overflow nor underflow
    const int spread = sizeof(R) == 4 ? 12 : 30;
    return rc::gen::map(rc::gen::tuple(rc::gen::arbitrary<uint64_t>(), in_range<int>(-spread, spread), in_range<unsigned>(0, 9)), [](std::tuple<uint64_t, int, unsigned> t) {
        if (std::get<2>(t) == 0) {
            return to_bits<R>(R(0));
        }
        if (std::get<2>(t) == 1) {
            return to_bits<R>(R(1));
        }
        ld m = 1.0L + ld(std::get<0>(t) >> 11) / ld(uint64_t(1) << 53);
        R v = R(std::ldexp(m, std::get<1>(t)));
        return to_bits<R>((std::get<0>(t) & 1) ? -v : v);
    });
}

template <class R, size_t N>
struct Aff {
    using A = covfie::algebra::affine<N, R>;
    using V = covfie::algebra::vector<N, R>;
    using B = cb::affine<cb::identity<cv::vector_d<R, N>>>;
    static constexpr ld u = sizeof(R) == 4 ? 0x1p-24L : 0x1p-53L;
    static std::string name() { return std::string("affine/N=") + std::to_string(N) + "/R=" + tname<R>(); }

    struct Model {   // exact model of one transform
        q128 a[N][N + 1];
    };
    static A to_lib(const std::vector<uint64_t> & m)
    {
        A r;
        for (size_t i = 0; i < N; ++i) {
            for (size_t j = 0; j <= N; ++j) {
                r(i, j) = from_bits<R>(m[i * (N + 1) + j]);
            }
        }
        return r;
    }
    static Model to_model(const std::vector<uint64_t> & m)
    {
        Model r;
        for (size_t i = 0; i < N; ++i) {
            for (size_t j = 0; j <= N; ++j) {
                r.a[i][j] = q128(from_bits<R>(m[i * (N + 1) + j]));
            }
        }
        return r;
    }
    static q128 qabs(q128 v) { return v < 0 ? -v : v; }
    // y = M x (exact) and magnitude s = |M||x| (componentwise)
    static void apply(const Model & m, const q128 * x, const q128 * sx, q128 * y, q128 * sy)
    {
        for (size_t i = 0; i < N; ++i) {
            y[i] = m.a[i][N];
            sy[i] = qabs(m.a[i][N]);
            for (size_t j = 0; j < N; ++j) {
                y[i] += m.a[i][j] * x[j];
                sy[i] += qabs(m.a[i][j]) * sx[j];
            }
        }
    }
    template <size_t... Is>
    static A translation(const R * t, std::index_sequence<Is...>)
    {
        return A::translation(t[Is]...);
    }
    template <size_t... Is>
    static A scaling(const R * t, std::index_sequence<Is...>)
    {
        return A::scaling(t[Is]...);
    }
    // the factories take any argument types convertible to R ("must be convertible to transformation matrix
    // elements"): argument lists of mixed types, each argument holding the same small integer
    template <size_t I>
    static auto mixed_a(R v)
    {
        if constexpr (I % 4 == 0) {
            return int(v);
        } else if constexpr (I % 4 == 1) {
            return unsigned(v);
        } else if constexpr (I % 4 == 2) {
            return double(v);
        } else {
            return long(v);
        }
    }
    template <size_t I>
    static auto mixed_b(R v)
    {
        if constexpr (I % 4 == 0) {
            return float(v);
        } else if constexpr (I % 4 == 1) {
            return short(v);
        } else if constexpr (I % 4 == 2) {
            return (unsigned long)(v);
        } else {
            return (signed char)(v);
        }
    }
    template <size_t... Is>
    static A translation_mixed(const R * t, bool b, std::index_sequence<Is...>)
    {
        return b ? A::translation(mixed_b<Is>(t[Is])...) : A::translation(mixed_a<Is>(t[Is])...);
    }
    template <size_t... Is>
    static A scaling_mixed(const R * t, bool b, std::index_sequence<Is...>)
    {
        return b ? A::scaling(mixed_b<Is>(t[Is])...) : A::scaling(mixed_a<Is>(t[Is])...);
    }
    static Verdict cmp(const char * what, size_t i, R got, q128 exact, q128 mag, ld factor, bool ex)
    {
        ld g = ld(got), e = ld(exact);
        if (ex) {
            if (!(g == e)) {
                return std::string(what) + " component " + std::to_string(i) + ": got " + ld_str(g) + ", exact value " + ld_str(e);
            }
            return std::nullopt;
        }
        ld bound = factor * u * ld(mag) + 8 * ld(std::numeric_limits<R>::denorm_min());
        if (!(std::fabs(g - e) <= bound)) {
            return std::string(what) + " component " + std::to_string(i) + ": got " + ld_str(g) + ", exact value " + ld_str(e) + ", |difference| " + ld_str(std::fabs(g - e)) + " exceeds bound " + ld_str(bound);
        }
        return std::nullopt;
    }

    static Verdict run(const Case & c)
    {
        const size_t K = c.mats.size();
        std::vector<A> lib;
        std::vector<Model> mod;
        for (auto & m : c.mats) {
            lib.push_back(to_lib(m));
            mod.push_back(to_model(m));
        }
        R xr[N];
        q128 x[N], sx[N];
        V xv;
        for (size_t i = 0; i < N; ++i) {
            xr[i] = from_bits<R>(c.x[i]);
            x[i] = q128(xr[i]);
            sx[i] = qabs(x[i]);
            xv(i) = xr[i];
        }
        // ---- 1. the layer over identity returns A1.x + t
        {
            covfie::field<B> f(pack(A(lib[0]), std::monostate{}));
            typename covfie::field<B>::view_t v(f);
            typename covfie::field<B>::coordinate_t cx;
            for (size_t i = 0; i < N; ++i) {
                cx[i] = xr[i];
            }
            auto got = v.at(cx);
            q128 y[N], sy[N];
            apply(mod[0], x, sx, y, sy);
            for (size_t i = 0; i < N; ++i) {
                if (auto b = cmp("affine layer over identity", i, got[i], y[i], sy[i], N + 2, c.exact)) {
                    return b;
                }
            }
            // ---- 1b. the layer over a backend whose values have the other precision: the coordinate handed down is
            // still A1.x + t computed in the coordinate scalar (observed with the probe backend)
            {
                using O = std::conditional_t<sizeof(R) == 4, double, float>;
                using P = probe<cv::vector_d<R, N>, cv::vector_d<O, 2>>;
                using BP = cb::affine<P>;
                probe_stats st;
                covfie::field<BP> fp(pack(A(lib[0]), typename P::configuration_t{&st}));
                typename covfie::field<BP>::view_t vp(fp);
                (void)vp.at(cx);
                if (st.queries != 1) {
                    return "affine layer over a probe backend queried it " + std::to_string(st.queries) + " times for one lookup";
                }
                for (size_t i = 0; i < N; ++i) {
                    if (auto b = cmp("affine layer over a backend with values of the other precision: queried coordinate", i, R(st.last[i]), y[i], sy[i], N + 2, c.exact)) {
                        return b;
                    }
                    if (!(ld(R(st.last[i])) == st.last[i])) {
                        return std::string("probe received a coordinate that is not a value of the coordinate scalar type");
                    }
                }
            }
            // ---- 2. algebra: A1 * x
            V r = lib[0] * xv;
            for (size_t i = 0; i < N; ++i) {
                if (auto b = cmp("affine * vector", i, r(i), y[i], sy[i], N + 2, c.exact)) {
                    return b;
                }
            }
        }
        // ---- 3. product P = A1*A2*...*AK applied to x  ==  A1(A2(...(AK x)))
        bool commute = true;
        if (K >= 2) {
            A P = lib[0];
            for (size_t k = 1; k < K; ++k) {
                P = P * lib[k];
            }
            V px = P * xv;
            V nested = xv;
            for (size_t k = K; k-- > 0;) {
                nested = lib[k] * nested;
            }
            q128 y[N], sy[N], t[N], st[N];
            for (size_t i = 0; i < N; ++i) {
                y[i] = x[i];
                sy[i] = sx[i];
            }
            for (size_t k = K; k-- > 0;) {
                apply(mod[k], y, sy, t, st);
                for (size_t i = 0; i < N; ++i) {
                    y[i] = t[i];
                    sy[i] = st[i];
                }
            }
            for (size_t i = 0; i < N; ++i) {
                if (auto b = cmp("(A1*...*Ak) * x", i, px(i), y[i], sy[i], ld(K) * (2 * N + 6), c.exact)) {
                    return b;
                }
                if (auto b = cmp("A1 * (... * (Ak * x))", i, nested(i), y[i], sy[i], ld(K) * (2 * N + 6), c.exact)) {
                    return b;
                }
            }
            // ---- 4. entries of A1*A2 against an independent product (exact domain)
            if (c.exact) {
                A P2 = lib[0] * lib[1];
                A Q2 = lib[1] * lib[0];
                for (size_t i = 0; i < N; ++i) {
                    for (size_t j = 0; j <= N; ++j) {
                        q128 e = (j == N) ? mod[0].a[i][N] : q128(0);
                        for (size_t l = 0; l < N; ++l) {
                            e += mod[0].a[i][l] * mod[1].a[l][j];
                        }
                        if (!(ld(P2(i, j)) == ld(e))) {
                            return "entry (" + std::to_string(i) + "," + std::to_string(j) + ") of A1*A2 is " + ld_str(P2(i, j)) + ", independent product gives " + ld_str(ld(e));
                        }
                        commute = commute && P2(i, j) == Q2(i, j);
                    }
                }
                if (!commute) {
                    label("first two factors do not commute");
                }
            }
        }
        // ---- 5. factories: translation(t)*x = x+t, scaling(s)*x = s.x, identity neutral on both sides
        {
            R tv[N];
            for (size_t i = 0; i < N; ++i) {
                tv[i] = from_bits<R>(c.mats[0][i * (N + 1) + N]);   // reuse the first transform's translation column
            }
            A T = translation(tv, std::make_index_sequence<N>{});
            A S = scaling(tv, std::make_index_sequence<N>{});
            V tx = T * xv, sxv = S * xv;
            for (size_t i = 0; i < N; ++i) {
                q128 e = x[i] + q128(tv[i]);
                if (auto b = cmp("translation(t) * x", i, tx(i), e, qabs(x[i]) + qabs(q128(tv[i])), 1, c.exact)) {
                    return b;
                }
                q128 p = x[i] * q128(tv[i]);
                if (auto b = cmp("scaling(s) * x", i, sxv(i), p, qabs(p), 1, c.exact)) {
                    return b;
                }
            }
            // mixed argument types (small-integer domain; unsigned positions need a non-negative value)
            if (c.exact && N >= 2) {
                for (bool b : {false, true}) {
                    bool ok = true;
                    for (size_t i = 0; i < N; ++i) {
                        bool uns = b ? i % 4 == 2 : i % 4 == 1;
                        ok = ok && tv[i] == R((long)tv[i]) && std::fabs(ld(tv[i])) <= 100 && !(uns && tv[i] < 0);
                    }
                    if (!ok) {
                        continue;
                    }
                    A Tm = translation_mixed(tv, b, std::make_index_sequence<N>{});
                    A Sm = scaling_mixed(tv, b, std::make_index_sequence<N>{});
                    label("factories called with arguments of mixed types");
                    for (size_t i = 0; i < N; ++i) {
                        for (size_t j = 0; j <= N; ++j) {
                            R wt = j == N ? tv[i] : (i == j ? R(1) : R(0));
                            R ws = j == N ? R(0) : (i == j ? tv[i] : R(0));
                            if (!(Tm(i, j) == wt)) {
                                return "translation(...) with arguments of mixed types (" + std::string(b ? "float, short, unsigned long, signed char" : "int, unsigned, double, long") + "): entry (" + std::to_string(i) + "," + std::to_string(j) + ") is " + ld_str(Tm(i, j)) + ", expected " + ld_str(wt);
                            }
                            if (!(Sm(i, j) == ws)) {
                                return "scaling(...) with arguments of mixed types (" + std::string(b ? "float, short, unsigned long, signed char" : "int, unsigned, double, long") + "): entry (" + std::to_string(i) + "," + std::to_string(j) + ") is " + ld_str(Sm(i, j)) + ", expected " + ld_str(ws);
                            }
                        }
                    }
                }
            }
            A I(covfie::algebra::matrix<N, N + 1, R>::identity());
            A L = I * lib[0], Rr = lib[0] * I;
            for (size_t i = 0; i < N; ++i) {
                for (size_t j = 0; j <= N; ++j) {
                    if (!(L(i, j) == lib[0](i, j)) || !(Rr(i, j) == lib[0](i, j))) {
                        return "identity is not neutral: entry (" + std::to_string(i) + "," + std::to_string(j) + ") of I*A / A*I is " + ld_str(L(i, j)) + " / " + ld_str(Rr(i, j)) + ", A has " + ld_str(lib[0](i, j));
                    }
                }
            }
            V ix = I * xv;
            for (size_t i = 0; i < N; ++i) {
                if (!(ix(i) == xr[i])) {
                    return std::string("identity * x differs from x");
                }
            }
        }
        // non-trivial: first matrix not diagonal and translation non-zero
        bool diag = true, tzero = true;
        for (size_t i = 0; i < N; ++i) {
            for (size_t j = 0; j < N; ++j) {
                if (i != j && lib[0](i, j) != 0) {
                    diag = false;
                }
            }
            tzero = tzero && lib[0](i, N) == 0;
        }
        bool nt = (N == 1 || !diag) && !tzero && (K < 2 || !c.exact || !commute || N == 1);
        if (K >= 2) {
            label("product of >= 2 transforms");
        }
        label(c.exact ? "small-integer domain (exact)" : "floating domain (bounded error)");
        Hasher h;
        h.pod(c.exact).vec(c.x);
        for (auto & m : c.mats) {
            h.vec(m);
        }
        record(name(), nt, h.h, [&] { return c.to_json(); });
        return std::nullopt;
    }
    // structured transforms: pure scalings by powers of two, pure translations by (tiny) powers of two, identity plus a
    // tiny perturbation - the shapes the examples compose (scaling * translation), including factors that are within
    // machine epsilon of the identity without being the identity
    static rc::Gen<std::vector<uint64_t>> gen_structured()
    {
        const int S = sizeof(R) == 4 ? 20 : 40, K = sizeof(R) == 4 ? 40 : 60;
        return rc::gen::exec([S, K] {
            std::vector<R> m(N * (N + 1), R(0));
            unsigned kind = *in_range<unsigned>(0, 3);
            for (size_t i = 0; i < N; ++i) {
                R d = 1, t = 0;
                if (kind == 0) {
                    d = std::ldexp(R(1), *in_range<int>(-S, S)) * ((*in_range<unsigned>(0, 3) == 0) ? R(-1) : R(1));
                } else if (kind == 1) {
                    t = std::ldexp(R(1), -*in_range<int>(0, K)) * ((*in_range<unsigned>(0, 1)) ? R(-1) : R(1));
                } else if (kind == 2) {
                    // within epsilon of the identity
                    t = (*in_range<unsigned>(0, 1)) ? std::ldexp(R(1), -*in_range<int>(sizeof(R) == 4 ? 24 : 53, K)) : R(0);
                    d = 1;
                } else {
                    d = R(*in_range<int>(1, 4));
                    t = R(*in_range<int>(-4, 4));
                }
                m[i * (N + 1) + i] = d;
                m[i * (N + 1) + N] = t;
            }
            std::vector<uint64_t> w;
            for (R v : m) {
                w.push_back(to_bits<R>(v));
            }
            return w;
        });
    }
    static rc::Gen<Case> gen_structured_case()
    {
        return rc::gen::map(
            rc::gen::pair(rc::gen::container<std::vector<std::vector<uint64_t>>>(3, gen_structured()), rc::gen::container<std::vector<uint64_t>>(N, rc::gen::map(in_range<int>(-4, 4), [](int v) { return to_bits<R>(R(v)); }))),
            [](std::pair<std::vector<std::vector<uint64_t>>, std::vector<uint64_t>> q) {
                Case c;
                c.exact = false;
                c.mats = q.first;
                c.x = q.second;
                return c;
            }
        );
    }
    static rc::Gen<Case> gen()
    {
        return rc::gen::mapcat(rc::gen::pair(rc::gen::arbitrary<bool>(), in_range<unsigned>(1, 4)), [](std::pair<bool, unsigned> p) {
            bool ex = p.first;
            auto mat = rc::gen::container<std::vector<uint64_t>>(N * (N + 1), gen_scalar<R>(ex));
            return rc::gen::map(rc::gen::pair(rc::gen::container<std::vector<std::vector<uint64_t>>>(p.second, mat), rc::gen::container<std::vector<uint64_t>>(N, gen_scalar<R>(ex))), [ex](std::pair<std::vector<std::vector<uint64_t>>, std::vector<uint64_t>> q) {
                Case c;
                c.exact = ex;
                c.mats = q.first;
                c.x = q.second;
                return c;
            });
        });
    }
    static void campaign()
    {
        if (N == 1) {
            // every 1-D transform pair with entries in -3..3 and x in -3..3 (exact domain)
            uint64_t n = 0;
            for (int a = -3; a <= 3; ++a) {
                for (int t = -3; t <= 3; ++t) {
                    for (int b = -3; b <= 3; ++b) {
                        for (int s = -3; s <= 3; ++s) {
                            for (int x = -3; x <= 3; ++x) {
                                Case c;
                                c.mats = {{to_bits<R>(R(a)), to_bits<R>(R(t))}, {to_bits<R>(R(b)), to_bits<R>(R(s))}};
                                c.x = {to_bits<R>(R(x))};
                                run_explicit(name(), c, run);
                                ++n;
                            }
                        }
                    }
                }
            }
            note_exhaustive(name() + ": all " + std::to_string(n) + " (A1,A2,x) with entries in -3..3");
        }
        rc_campaign<Case>(name(), tier(4000, 300000), 100, gen(), run);
        rc_campaign<Case>(name(), tier(2500, 150000), 100, gen_structured_case(), run);
    }
    static void reg()
    {
        add_inst(name(), campaign, [](const json & j) { return run(Case::from_json(j)); });
    }
};

void register_all()
{
    Aff<float, 1>::reg();
    Aff<float, 2>::reg();
    Aff<float, 3>::reg();
    Aff<float, 4>::reg();
    Aff<double, 1>::reg();
    Aff<double, 2>::reg();
    Aff<double, 3>::reg();
    Aff<double, 4>::reg();
}
}   // namespace
VF_MAIN(register_all)
