// The whole field API applied to one stack type (compile-verdict engine, C13).
#pragma once
#include "cov.hpp"

#include <sstream>

namespace vf {
template <typename B>
void api(covfie::field<B> & a, covfie::field<B> & b, std::iostream & s)
{
    using F = covfie::field<B>;
    static_assert(covfie::concepts::field_backend<B>);
    static_assert(std::is_trivially_copyable_v<typename F::view_t>);
    F x;                          // default construction
    F y(a);                       // copy construction
    F z(std::move(y));            // move construction
    a = b;                        // copy assignment
    a = std::move(b);             // move assignment
    typename F::view_t v(a);      // view construction
    typename F::view_t w(v);      // view copy
    (void)w;
    typename F::coordinate_t c{};
    auto && r = v.at(c);          // lookup
    (void)r;
    a.dump(s);                    // dump
    F l(s);                       // stream constructor
    auto k = a.backend().get_configuration();
    (void)k;
    if constexpr (!B::is_initial) {
        auto & inner = a.backend().get_backend();
        F p(covfie::make_parameter_pack(a.backend().get_configuration(), typename B::backend_t::owning_data_t(inner)));   // parameter-pack construction
        (void)p;
    } else {
        F p(covfie::make_parameter_pack(a.backend().get_configuration()));
        (void)p;
    }
    (void)x;
    (void)z;
    (void)l;
}
}   // namespace vf
#define VF_USE(...) template void vf::api<__VA_ARGS__>(covfie::field<__VA_ARGS__> &, covfie::field<__VA_ARGS__> &, std::iostream &);
