// C12: fields stay independent values under any history of construction, writes
// through views, copy / move construction, copy / move assignment (self included),
// layout conversion, dump/load and destruction. Model: a pool of optional N-D
// arrays subjected to the same history; after every step every live, specified
// field is read at every coordinate. ASan + LSan judge ownership.
#include "common.hpp"
#include "cov.hpp"

#include <algorithm>
#include <memory>
#include <sstream>

#if defined(__SANITIZE_ADDRESS__)
extern "C" size_t __sanitizer_get_current_allocated_bytes();
#include <sanitizer/lsan_interface.h>
#define VF_LSAN 1
#endif

namespace {
using namespace vf;

// ------------------------------------------------------------------ history encoding
struct Op {
    unsigned kind = 0;   // see KINDS
    unsigned a = 0, b = 0, t = 0;
    std::vector<unsigned> e;   // extents operand (3)
    std::vector<unsigned> c;   // coordinate operand (3)
    int v = 0;
};
const char * KINDS[] = {"construct", "default_construct", "write", "copy_construct", "move_construct", "copy_assign", "move_assign", "convert_copy", "convert_move", "dump_load", "destroy", "fill"};
constexpr unsigned NKINDS = 12;
struct Case {
    unsigned slots = 4;
    std::vector<Op> ops;
    json to_json() const
    {
        json o = json::array();
        for (auto & x : ops) {
            o.push_back(json{{"op", KINDS[x.kind % NKINDS]}, {"a", x.a}, {"b", x.b}, {"t", x.t}, {"e", x.e}, {"c", x.c}, {"v", x.v}});
        }
        return json{{"slots", slots}, {"ops", o}};
    }
    static Case from_json(const json & j)
    {
        Case c;
        c.slots = j.at("slots");
        for (auto & x : j.at("ops")) {
            Op o;
            std::string k = x.at("op");
            for (unsigned i = 0; i < NKINDS; ++i) {
                if (k == KINDS[i]) {
                    o.kind = i;
                }
            }
            o.a = x.at("a");
            o.b = x.at("b");
            o.t = x.at("t");
            o.e = x.at("e").get<std::vector<unsigned>>();
            o.c = x.at("c").get<std::vector<unsigned>>();
            o.v = x.at("v");
            c.ops.push_back(o);
        }
        return c;
    }
};

// ------------------------------------------------------------------ slot types
using F1 = cb::array<cv::float1>;
using T0 = cb::strided<cv::size2, F1>;
using T1 = cb::morton<cv::size2, F1>;
using T2 = cb::hilbert<cv::size2, F1>;
using T3 = cb::strided<cv::size3, cb::array<cv::double2>>;
using T4 = cb::nearest_neighbour<cb::strided<cv::size2, F1>>;
using T5 = cb::affine<cb::nearest_neighbour<cb::strided<cv::size2, F1>>>;
using T6 = cb::array<cv::float2>;
using T7 = cb::strided<cv::size2, cb::array<cv::float3>>;   // 3-component cells, up to 24x24: more than 1024 scalars
using D1 = cb::array<cv::double1>;
using T8 = cb::morton<cv::size2, D1>;   // double storage: conversions to and from T0..T2 change the stored scalar type
constexpr unsigned NTYPES = 9;
const char * TNAMES[] = {"strided<size2,array<float1>>", "morton<size2,array<float1>>", "hilbert<size2,array<float1>>", "strided<size3,array<double2>>", "nearest_neighbour<strided<size2,array<float1>>>", "affine<nearest_neighbour<strided<size2,array<float1>>>>", "array<float2>", "strided<size2,array<float3>>", "morton<size2,array<double1>>"};

// model of one field: extents (up to 3), M components per cell, values as doubles (exactly representable)
struct Model {
    unsigned type = 0;
    std::vector<uint64_t> ext;
    unsigned M = 1;
    std::vector<double> val;
    uint64_t cells() const
    {
        uint64_t n = 1;
        for (auto e : ext) {
            n *= e;
        }
        return n;
    }
};

struct ISlot {
    unsigned type;
    explicit ISlot(unsigned t)
        : type(t)
    {
    }
    virtual ~ISlot() {}
    virtual std::unique_ptr<ISlot> copy_construct() const = 0;
    virtual std::unique_ptr<ISlot> move_construct() = 0;
    virtual void copy_assign(const ISlot & o) = 0;
    virtual void move_assign(ISlot & o) = 0;
    virtual void write(const std::vector<uint64_t> & coord, unsigned comp, double v) = 0;
    virtual std::vector<double> read_all(const Model & m) const = 0;
    virtual std::string dump() const = 0;
    // every size-like configuration along the get_backend() chain (extents of the storage order, length of the array)
    virtual std::vector<std::vector<uint64_t>> shape() const = 0;
};

template <class L>
void shape_of(const typename L::owning_data_t & o, std::vector<std::vector<uint64_t>> & out)
{
    if constexpr (requires { o.get_configuration()[0]; }) {
        auto c = o.get_configuration();
        std::vector<uint64_t> v;
        for (size_t i = 0; i < c.size(); ++i) {
            v.push_back(c[i]);
        }
        out.push_back(v);
    }
    if constexpr (!L::is_initial) {
        shape_of<typename L::backend_t>(o.get_backend(), out);
    }
}

template <class B>
struct traits;
template <unsigned ID, class B, size_t N_, size_t M_>
struct traits_base {
    static constexpr unsigned id = ID;
    static constexpr size_t N = N_, M = M_;
};
template <>
struct traits<T0> : traits_base<0, T0, 2, 1> {};
template <>
struct traits<T1> : traits_base<1, T1, 2, 1> {};
template <>
struct traits<T2> : traits_base<2, T2, 2, 1> {};
template <>
struct traits<T3> : traits_base<3, T3, 3, 2> {};
template <>
struct traits<T4> : traits_base<4, T4, 2, 1> {};
template <>
struct traits<T5> : traits_base<5, T5, 2, 1> {};
template <>
struct traits<T6> : traits_base<6, T6, 1, 2> {};
template <>
struct traits<T7> : traits_base<7, T7, 2, 3> {};
template <>
struct traits<T8> : traits_base<8, T8, 2, 1> {};

template <class B>
covfie::field<B> construct(const std::vector<uint64_t> & ext)
{
    constexpr size_t N = traits<B>::N;
    if constexpr (std::is_same_v<B, T6>) {
        return covfie::field<B>(pack(typename B::configuration_t{ext[0]}));
    } else {
        using SB = std::conditional_t<std::is_same_v<B, T3>, T3, T0>;
        typename SB::configuration_t e;
        for (size_t k = 0; k < N; ++k) {
            e[k] = ext[k];
        }
        if constexpr (std::is_same_v<B, T0> || std::is_same_v<B, T3> || std::is_same_v<B, T7>) {
            return covfie::field<B>(pack(e));
        } else if constexpr (std::is_same_v<B, T1> || std::is_same_v<B, T2>) {
            covfie::field<T0> s(pack(e));
            return covfie::field<B>(s);
        } else if constexpr (std::is_same_v<B, T8>) {
            covfie::field<cb::strided<cv::size2, D1>> s(pack(e));
            return covfie::field<B>(s);
        } else if constexpr (std::is_same_v<B, T4>) {
            return covfie::field<B>(pack(std::monostate{}, e));
        } else {
            return covfie::field<B>(pack(typename B::configuration_t(covfie::algebra::matrix<2, 3, float>::identity()), std::monostate{}, e));
        }
    }
}

template <class B>
struct Slot : ISlot {
    covfie::field<B> f;
    explicit Slot(covfie::field<B> && g)
        : ISlot(traits<B>::id)
        , f(std::move(g))
    {
    }
    Slot()
        : ISlot(traits<B>::id)
    {
    }
    std::unique_ptr<ISlot> copy_construct() const override
    {
        covfie::field<B> g(f);
        return std::make_unique<Slot<B>>(std::move(g));
    }
    std::unique_ptr<ISlot> move_construct() override { return std::make_unique<Slot<B>>(std::move(f)); }
    void copy_assign(const ISlot & o) override { f = static_cast<const Slot<B> &>(o).f; }
    void move_assign(ISlot & o) override { f = std::move(static_cast<Slot<B> &>(o).f); }
    void write(const std::vector<uint64_t> & coord, unsigned comp, double v) override
    {
        typename covfie::field<B>::view_t view(f);
        using S = typename B::covariant_output_t::scalar_t;
        if constexpr (std::is_same_v<B, T6>) {
            view.at(std::size_t(coord[0]))[comp] = S(v);
        } else {
            typename covfie::field<B>::coordinate_t x;
            for (size_t k = 0; k < traits<B>::N; ++k) {
                x[k] = typename B::contravariant_input_t::scalar_t(coord[k]);
            }
            view.at(x)[comp] = S(v);
        }
    }
    std::vector<double> read_all(const Model & m) const override
    {
        typename covfie::field<B>::view_t view(f);
        std::vector<double> out;
        constexpr size_t N = traits<B>::N, M = traits<B>::M;
        std::vector<uint64_t> c(N, 0);
        if (m.cells() == 0) {
            return out;
        }
        while (true) {
            if constexpr (std::is_same_v<B, T6>) {
                auto & r = view.at(std::size_t(c[0]));
                for (size_t j = 0; j < M; ++j) {
                    out.push_back(double(r[j]));
                }
            } else {
                typename covfie::field<B>::coordinate_t x;
                for (size_t k = 0; k < N; ++k) {
                    x[k] = typename B::contravariant_input_t::scalar_t(c[k]);
                }
                auto & r = view.at(x);
                for (size_t j = 0; j < M; ++j) {
                    out.push_back(double(r[j]));
                }
            }
            size_t k = N;
            while (k > 0 && c[k - 1] + 1 == m.ext[k - 1]) {
                c[--k] = 0;
            }
            if (k == 0) {
                break;
            }
            c[k - 1]++;
        }
        return out;
    }
    std::string dump() const override
    {
        std::ostringstream os;
        f.dump(os);
        return os.str();
    }
    std::vector<std::vector<uint64_t>> shape() const override
    {
        std::vector<std::vector<uint64_t>> out;
        shape_of<B>(f.backend(), out);
        return out;
    }
};

template <class F>
auto with_type(unsigned t, F && f)
{
    switch (t % NTYPES) {
        case 0: return f(std::type_identity<T0>{});
        case 1: return f(std::type_identity<T1>{});
        case 2: return f(std::type_identity<T2>{});
        case 3: return f(std::type_identity<T3>{});
        case 4: return f(std::type_identity<T4>{});
        case 5: return f(std::type_identity<T5>{});
        case 6: return f(std::type_identity<T6>{});
        case 7: return f(std::type_identity<T7>{});
        default: return f(std::type_identity<T8>{});
    }
}
// conversions exist between the three layouts of array<float1> and the Morton layout of array<double1> (the element-wise
// re-layout copies convert the stored scalar type; every value the interpreter writes is exactly representable in float)
inline bool convertible(unsigned t) { return t <= 2 || t == 8; }
template <class Dst>
std::unique_ptr<ISlot> convert_from(ISlot & src, bool move)
{
    auto go = [&](auto tag) -> std::unique_ptr<ISlot> {
        using Src = typename decltype(tag)::type;
        auto & s = static_cast<Slot<Src> &>(src);
        if (move) {
            return std::make_unique<Slot<Dst>>(covfie::field<Dst>(std::move(s.f)));
        }
        return std::make_unique<Slot<Dst>>(covfie::field<Dst>(s.f));
    };
    switch (src.type) {
        case 0: return go(std::type_identity<T0>{});
        case 1: return go(std::type_identity<T1>{});
        case 2: return go(std::type_identity<T2>{});
        default: return go(std::type_identity<T8>{});
    }
}

// ------------------------------------------------------------------ interpreter
struct Pool {
    std::vector<std::unique_ptr<ISlot>> impl;
    std::vector<std::optional<Model>> model;   // nullopt: live object in an unspecified state, or no object
    // a default-constructed field, or a copy of one: no cells; the array layer's length is 0 (array::owning_data_t()
    // sets it), whatever the layers above report. Assigning such a field makes the destination one as well.
    std::vector<char> empty_default;
};

std::vector<uint64_t> decode_ext(unsigned type, const std::vector<unsigned> & e)
{
    // small extents, 1..5 per axis (array: 1..9)
    switch (type % NTYPES) {
        case 3: return {1 + e[0] % 3u, 1 + e[1] % 4u, 1 + e[2] % 2u};
        case 6: return {1 + e[0] % 9u};
        case 7: return {1 + (e[0] * 3 + e[2]) % 24u, 1 + (e[1] * 3 + e[2]) % 24u};
        default: return {1 + e[0] % 5u, 1 + e[1] % 5u};
    }
}

Verdict check_all(const Pool & p, size_t step, const char * what)
{
    for (size_t s = 0; s < p.impl.size(); ++s) {
        if (p.impl[s] && !p.model[s] && p.empty_default[s]) {
            auto sh = p.impl[s]->shape();
            if (sh.empty() || sh.back() != std::vector<uint64_t>{0}) {
                return "after step " + std::to_string(step) + " (" + what + "): slot " + std::to_string(s) + " [" + TNAMES[p.impl[s]->type] + "] holds a default-constructed field (or a copy of one) but its array layer reports length " + (sh.empty() ? std::string("?") : std::to_string(sh.back().at(0)));
            }
        }
        if (!p.impl[s] || !p.model[s]) {
            continue;
        }
        {
            // reported extents and storage length follow the model (a stale size after an assignment would show here)
            const Model & m = *p.model[s];
            std::vector<std::vector<uint64_t>> want;
            uint64_t len = m.cells();
            if (m.type == 1 || m.type == 2 || m.type == 8) {
                uint64_t mx = *std::max_element(m.ext.begin(), m.ext.end()), side = 1;
                while (side < mx) {
                    side *= 2;
                }
                len = side * side;
            }
            if (m.type != 6) {
                want.push_back(m.ext);
            }
            want.push_back({len});
            if (p.impl[s]->shape() != want) {
                return "after step " + std::to_string(step) + " (" + what + "): slot " + std::to_string(s) + " [" + TNAMES[p.impl[s]->type] + "] reports extents / storage length that differ from the model's";
            }
        }
        auto got = p.impl[s]->read_all(*p.model[s]);
        digest("history", got.data(), got.size() * sizeof(double));
        const auto & want = p.model[s]->val;
        if (got.size() != want.size()) {
            return "after step " + std::to_string(step) + " (" + what + "): slot " + std::to_string(s) + " has " + std::to_string(got.size()) + " values, model " + std::to_string(want.size());
        }
        for (size_t i = 0; i < got.size(); ++i) {
            if (std::memcmp(&got[i], &want[i], sizeof(double)) != 0) {
                return "after step " + std::to_string(step) + " (" + what + "): slot " + std::to_string(s) + " [" + TNAMES[p.impl[s]->type] + "] flat value #" + std::to_string(i) + " reads " + ld_str(got[i]) + ", the model array holds " + ld_str(want[i]);
            }
        }
    }
    return std::nullopt;
}

struct RunInfo {
    bool write_to_copy_then_read_other = false;
    unsigned executed = 0, skipped = 0;
};

Verdict interpret(const Case & c, RunInfo & info)
{
    Pool p;
    p.impl.resize(c.slots);
    p.model.resize(c.slots);
    p.empty_default.assign(c.slots, 0);
    std::vector<int> copy_partner(c.slots, -1);   // slot i currently shares its contents' origin with copy_partner[i]
    size_t step = 0;
    for (const Op & o : c.ops) {
        ++step;
        const unsigned a = o.a % c.slots, b = o.b % c.slots;
        const unsigned kind = o.kind % NKINDS;
        bool done = true, now_empty = false;
        switch (kind) {
            case 0: {   // construct(a, type, extents)
                auto ext = decode_ext(o.t, o.e);
                p.impl[a] = with_type(o.t, [&](auto tag) -> std::unique_ptr<ISlot> {
                    using B = typename decltype(tag)::type;
                    return std::make_unique<Slot<B>>(construct<B>(ext));
                });
                Model m;
                m.type = o.t % NTYPES;
                m.ext = ext;
                m.M = (m.type == 3 || m.type == 6) ? 2 : (m.type == 7 ? 3 : 1);
                m.val.assign(m.cells() * m.M, 0.0);
                p.model[a] = m;
                copy_partner[a] = -1;
                break;
            }
            case 1: {   // default_construct(a, type): live, unspecified
                p.impl[a] = with_type(o.t, [&](auto tag) -> std::unique_ptr<ISlot> {
                    using B = typename decltype(tag)::type;
                    return std::make_unique<Slot<B>>();
                });
                p.model[a].reset();
                now_empty = true;
                break;
            }
            case 2: {   // write(a, coord, value)
                if (!p.impl[a] || !p.model[a]) {
                    done = false;
                    break;
                }
                Model & m = *p.model[a];
                std::vector<uint64_t> cc;
                uint64_t rank = 0;
                for (size_t k = 0; k < m.ext.size(); ++k) {
                    cc.push_back(o.c[k] % m.ext[k]);
                    rank = rank * m.ext[k] + cc.back();
                }
                unsigned comp = unsigned(o.v < 0 ? -o.v : o.v) % m.M;
                double v = (m.type == 3) ? double(o.v) / 8.0 + 1e-3 : double(float(double(o.v) / 8.0 + 0.1));
                p.impl[a]->write(cc, comp, v);
                m.val[rank * m.M + comp] = v;
                if (copy_partner[a] >= 0) {
                    info.write_to_copy_then_read_other = true;
                }
                break;
            }
            case 3:     // copy_construct(a <- b)
            case 4: {   // move_construct(a <- b)
                if (a != b && p.impl[b] && !p.model[b] && p.empty_default[b]) {
                    // from a default-constructed field: the new field is one as well
                    p.impl[a] = kind == 3 ? p.impl[b]->copy_construct() : p.impl[b]->move_construct();
                    p.model[a].reset();
                    copy_partner[a] = -1;
                    now_empty = true;
                    if (kind == 4) {
                        p.empty_default[b] = 0;
                    }
                    break;
                }
                if (a == b || !p.impl[b] || !p.model[b]) {
                    done = false;
                    break;
                }
                if (kind == 3) {
                    p.impl[a] = p.impl[b]->copy_construct();
                    p.model[a] = p.model[b];
                    copy_partner[a] = int(b);
                    copy_partner[b] = int(a);
                } else {
                    p.impl[a] = p.impl[b]->move_construct();
                    p.model[a] = p.model[b];
                    p.model[b].reset();   // moved-from: unspecified
                    copy_partner[a] = -1;
                }
                break;
            }
            case 5:     // copy_assign(a = b), self included
            case 6: {   // move_assign(a = std::move(b)), self included
                if (p.impl[a] && p.impl[b] && !p.model[b] && p.empty_default[b] && p.impl[a]->type == p.impl[b]->type) {
                    // assigning a default-constructed field (to anything, a moved-from field included) leaves a field without cells
                    if (kind == 5) {
                        p.impl[a]->copy_assign(*p.impl[b]);
                        now_empty = true;
                    } else {
                        p.impl[a]->move_assign(*p.impl[b]);
                        now_empty = a != b;
                        p.empty_default[b] = 0;
                    }
                    p.model[a].reset();
                    copy_partner[a] = -1;
                    break;
                }
                if (!p.impl[a] || !p.impl[b] || !p.model[b] || p.impl[a]->type != p.impl[b]->type) {
                    done = false;
                    break;
                }
                if (kind == 5) {
                    p.impl[a]->copy_assign(*p.impl[b]);
                    if (a != b) {
                        p.model[a] = p.model[b];
                        copy_partner[a] = int(b);
                        copy_partner[b] = int(a);
                    }
                } else {
                    p.impl[a]->move_assign(*p.impl[b]);
                    if (a != b) {
                        p.model[a] = p.model[b];
                        p.model[b].reset();
                        copy_partner[a] = -1;
                    } else {
                        p.model[a].reset();   // self-move: only "no crash, still assignable" is required
                    }
                }
                break;
            }
            case 7:
            case 8: {   // convert_copy / convert_move (a <- b) between the layouts of array<float1>
                if (a == b || !p.impl[b] || !p.model[b] || !convertible(p.impl[b]->type)) {
                    done = false;
                    break;
                }
                unsigned dt = o.t < 3 ? o.t : (o.t % 4 == 3 ? 8 : o.t % 4);
                switch (dt) {
                    case 0: p.impl[a] = convert_from<T0>(*p.impl[b], kind == 8); break;
                    case 1: p.impl[a] = convert_from<T1>(*p.impl[b], kind == 8); break;
                    case 2: p.impl[a] = convert_from<T2>(*p.impl[b], kind == 8); break;
                    default: p.impl[a] = convert_from<T8>(*p.impl[b], kind == 8); break;
                }
                p.model[a] = p.model[b];
                p.model[a]->type = dt;
                if (kind == 8) {
                    p.model[b].reset();   // conservatively unspecified after being moved from
                } else {
                    copy_partner[a] = int(b);
                    copy_partner[b] = int(a);
                }
                break;
            }
            case 9: {   // dump_load (a <- b)
                if (!p.impl[b] || !p.model[b]) {
                    done = false;
                    break;
                }
                std::string bytes = p.impl[b]->dump();
                digest("history", bytes.data(), bytes.size());   // dump bytes are an observable result (C15: every byte must be initialised)
                std::unique_ptr<ISlot> n = with_type(p.impl[b]->type, [&](auto tag) -> std::unique_ptr<ISlot> {
                    using B = typename decltype(tag)::type;
                    std::istringstream is(bytes);
                    return std::make_unique<Slot<B>>(covfie::field<B>(is));
                });
                Model m = *p.model[b];
                p.impl[a] = std::move(n);
                p.model[a] = m;
                if (a != b) {
                    copy_partner[a] = int(b);
                    copy_partner[b] = int(a);
                }
                break;
            }
            case 11: {   // fill(a, v): write every cell through a view (cell-dependent values)
                if (!p.impl[a] || !p.model[a]) {
                    done = false;
                    break;
                }
                Model & m = *p.model[a];
                const uint64_t cells = m.cells();
                for (uint64_t r = 0; r < cells; ++r) {
                    std::vector<uint64_t> cc(m.ext.size());
                    uint64_t q = r;
                    for (size_t k = m.ext.size(); k-- > 0;) {
                        cc[k] = q % m.ext[k];
                        q /= m.ext[k];
                    }
                    for (unsigned comp = 0; comp < m.M; ++comp) {
                        double v = (m.type == 3) ? double(o.v) + double(r) / 4.0 + comp : double(float(double(o.v) + double(r % 4096) / 4.0 + comp));
                        p.impl[a]->write(cc, comp, v);
                        m.val[r * m.M + comp] = v;
                    }
                }
                if (copy_partner[a] >= 0) {
                    info.write_to_copy_then_read_other = true;
                }
                break;
            }
            default: {   // destroy(a)
                if (!p.impl[a]) {
                    done = false;
                    break;
                }
                p.impl[a].reset();
                p.model[a].reset();
                copy_partner[a] = -1;
            }
        }
        if (!done) {
            info.skipped++;
            continue;
        }
        if (kind != 2 && kind != 11) {
            p.empty_default[a] = now_empty ? 1 : 0;   // every other operation replaces (or destroys) the object in slot a
        }
        info.executed++;
        if (auto bad = check_all(p, step, KINDS[kind])) {
            return bad;
        }
    }
    return std::nullopt;
}

bool leak_check()
{
#ifdef VF_LSAN
    return __lsan_do_recoverable_leak_check() != 0;
#else
    return false;
#endif
}

size_t allocated_now()
{
#ifdef VF_LSAN
    return __sanitizer_get_current_allocated_bytes();
#else
    return 0;
#endif
}

Verdict run(const Case & c)
{
    RunInfo info;
    // every object the interpreter creates is destroyed when it returns: the allocator's
    // live-byte count must come back to where it was (cheap per-history leak oracle;
    // LeakSanitizer itself runs every few hundred histories and at exit)
    digest("history", "", 0);   // make sure the digest slot exists before the allocator is sampled
    const size_t before = allocated_now();
    Verdict v = interpret(c, info);
    const size_t after = allocated_now();
    if (!v && after != before) {
        v = "storage leaked by this history: " + std::to_string(after - before) + " bytes still allocated after every field was destroyed";
    }
    static unsigned since = 0;
    if (!v && ++since >= 400) {
        since = 0;
        if (leak_check()) {
            v = std::string("LeakSanitizer: storage leaked within the last 400 histories (see log)");
        }
    }
    Hasher h;
    for (auto & o : c.ops) {
        h.pod(o.kind % NKINDS).pod(o.a % c.slots).pod(o.b % c.slots).pod(o.t).vec(o.e).vec(o.c).pod(o.v);
    }
    if (info.write_to_copy_then_read_other) {
        label("write to a copy (or to the original after a copy), other side read afterwards");
    }
    record("history/slots=" + std::to_string(c.slots), info.write_to_copy_then_read_other, h.h, [&] { return c.to_json(); });
    return v;
}

rc::Gen<Op> gen_op(unsigned ntypes)
{
    return rc::gen::map(
        rc::gen::tuple(
            rc::gen::weightedElement<unsigned>({{4, 0}, {1, 1}, {6, 2}, {3, 3}, {2, 4}, {3, 5}, {2, 6}, {2, 7}, {1, 8}, {2, 9}, {1, 10}, {2, 11}}),
            in_range<unsigned>(0, 3),
            in_range<unsigned>(0, 3),
            in_range<unsigned>(0, ntypes - 1),
            rc::gen::container<std::vector<unsigned>>(3, in_range<unsigned>(0, 8)),
            rc::gen::container<std::vector<unsigned>>(3, in_range<unsigned>(0, 8)),
            in_range<int>(-40, 40)
        ),
        [](std::tuple<unsigned, unsigned, unsigned, unsigned, std::vector<unsigned>, std::vector<unsigned>, int> t) {
            Op o;
            o.kind = std::get<0>(t);
            o.a = std::get<1>(t);
            o.b = std::get<2>(t);
            o.t = std::get<3>(t);
            o.e = std::get<4>(t);
            o.c = std::get<5>(t);
            o.v = std::get<6>(t);
            return o;
        }
    );
}

// exhaustive enumeration over a reduced alphabet: 2 (or 3) slots, 2 types, fixed extents/coordinate
std::vector<Op> alphabet(unsigned slots)
{
    std::vector<Op> al;
    auto mk = [](unsigned k, unsigned a, unsigned b, unsigned t, int v) {
        Op o;
        o.kind = k;
        o.a = a;
        o.b = b;
        o.t = t;
        o.e = {1, 2, 0};   // extents (2,3)
        o.c = {1, 2, 0};
        o.v = v;
        return o;
    };
    for (unsigned a = 0; a < slots; ++a) {
        for (unsigned t = 0; t < 2; ++t) {
            al.push_back(mk(0, a, 0, t, 0));
        }
        al.push_back(mk(1, a, 0, a % 2, 0));
        al.push_back(mk(2, a, 0, 0, 8 + int(a)));
        al.push_back(mk(10, a, 0, 0, 0));
        for (unsigned b = 0; b < slots; ++b) {
            if (a != b) {
                al.push_back(mk(3, a, b, 0, 0));
                al.push_back(mk(4, a, b, 0, 0));
                al.push_back(mk(7, a, b, (a + b) % 2, 0));
                al.push_back(mk(8, a, b, (a + b + 1) % 2, 0));
            }
            al.push_back(mk(5, a, b, 0, 0));
            al.push_back(mk(6, a, b, 0, 0));
            if (a != b || a == 0) {
                al.push_back(mk(9, a, b, 0, 0));
            }
        }
    }
    return al;
}

void exhaustive(unsigned slots, unsigned len, unsigned first_lo, unsigned first_hi, const std::string & inst)
{
    auto al = alphabet(slots);
    std::vector<unsigned> idx(len, 0);
    uint64_t n = 0;
    for (unsigned f = first_lo; f < first_hi && f < al.size(); ++f) {
        idx.assign(len, 0);
        idx[0] = f;
        while (true) {
            Case c;
            c.slots = slots;
            for (unsigned k = 0; k < len; ++k) {
                c.ops.push_back(al[idx[k]]);
            }
            // writes get distinct values per position so that a stale copy is visible
            for (unsigned k = 0; k < len; ++k) {
                if (c.ops[k].kind == 2) {
                    c.ops[k].v += int(3 * k);
                }
            }
            run_explicit(inst, c, run);
            ++n;
            unsigned k = len;
            while (k > 1 && idx[k - 1] + 1 == al.size()) {
                idx[--k] = 0;
            }
            if (k <= 1) {
                break;
            }
            idx[k - 1]++;
        }
    }
    note_exhaustive(inst + ": all " + std::to_string(n) + " histories of length " + std::to_string(len) + " over " + std::to_string(slots) + " slots and a " + std::to_string(al.size()) + "-operation alphabet with first operation in [" + std::to_string(first_lo) + "," + std::to_string(first_hi) + ")");
}

void register_all()
{
    // exhaustive part, sharded by the first operation
    const unsigned parts = 8;
    for (unsigned part = 0; part < parts; ++part) {
        std::string inst = "history/exhaustive/part=" + std::to_string(part);
        add_inst(
            inst,
            [part, inst] {
                const unsigned slots = tier(2u, 3u), len = tier(3u, 4u);
                auto al = alphabet(slots);
                unsigned per = unsigned((al.size() + parts - 1) / parts);
                // shorter histories are prefixes with trailing no-ops only in effect; enumerate lengths 1..len
                for (unsigned l = 1; l <= len; ++l) {
                    exhaustive(slots, l, part * per, std::min<unsigned>((part + 1) * per, unsigned(al.size())), inst);
                }
                if (leak_check()) {
                    fail_exit(json{{"inst", inst}, {"note", "leak detected during the exhaustive block; see log"}}, "LeakSanitizer: storage leaked during the exhaustive enumeration");
                }
            },
            [](const json & j) { return run(Case::from_json(j)); }
        );
    }
    for (unsigned part = 0; part < 8; ++part) {
        std::string inst = "history/random/part=" + std::to_string(part);
        add_inst(
            inst,
            [inst] {
                auto g = rc::gen::map(rc::gen::container<std::vector<Op>>(gen_op(NTYPES)), [](std::vector<Op> ops) {
                    Case c;
                    c.slots = 4;
                    c.ops = std::move(ops);
                    return c;
                });
                const char * n = getenv("VERIF_C12_RANDOM");   // C15 runs this harness in several builds with its own budget
                rc_campaign<Case>(inst, n ? atoi(n) : tier(1500, 60000), 60, g, run);
            },
            [](const json & j) { return run(Case::from_json(j)); }
        );
    }
}
}   // namespace
#ifndef VF_FUZZ_TARGET
VF_MAIN(register_all)
#else
// Engine E5 on histories: libFuzzer decodes bytes into an operation sequence (8 bytes per operation) and runs it
// through the same interpreter and oracles; coverage guidance explores operation combinations the random
// generator reaches rarely. Built with clang (-DVF_NO_LINEAR: no slot type uses linear.hpp).
extern "C" int LLVMFuzzerTestOneInput(const uint8_t * data, size_t size)
{
    Case c;
    c.slots = 4;
    for (size_t i = 0; i + 8 <= size && c.ops.size() < 80; i += 8) {
        Op o;
        o.kind = data[i] % NKINDS;   // includes "fill"
        o.a = data[i + 1] & 3;
        o.b = (data[i + 1] >> 2) & 3;
        o.t = data[i + 2] % NTYPES;
        o.e = {unsigned(data[i + 3] & 15), unsigned(data[i + 3] >> 4), unsigned(data[i + 4] & 15)};
        o.c = {unsigned(data[i + 4] >> 4), unsigned(data[i + 5] & 15), unsigned(data[i + 5] >> 4)};
        o.v = int(int8_t(data[i + 6])) / 3;
        c.ops.push_back(o);
    }
    Verdict v = run(c);
    if (v) {
        fprintf(stderr, "FUZZ-ORACLE-VIOLATION: %s\nhistory: %s\n", v->c_str(), c.to_json().dump().c_str());
        fflush(nullptr);
        __builtin_trap();
    }
    return 0;
}
#endif
