// C18: round_pow2 returns the least power of two >= i for 1 <= i <= 2^(w-1);
// ipow returns b^e mod 2^w; consequently Morton / Hilbert storage has more
// cells than the largest curve position of any in-range coordinate.
// Built with g++ and with clang++ (only clang's UBSan instruments the promoted
// uint16_t * uint16_t multiply).
#include "common.hpp"
#include "ref.hpp"

#ifdef VF_C18_SIZING
#include "cov.hpp"
#else
#include <covfie/core/utility/numeric.hpp>
#endif

namespace {
using namespace vf;

struct Case {
    std::string fn;        // round_pow2 | ipow | sizing
    unsigned w = 0;        // integer width
    uint64_t lo = 0, hi = 0;   // round_pow2: range of i; ipow: range of b
    uint64_t e_lo = 0, e_hi = 0;   // ipow: range of e
    std::string layout;
    std::vector<uint64_t> ext;
    json to_json() const
    {
        json j{{"fn", fn}, {"w", w}};
        if (fn == "round_pow2") {
            j["i_lo"] = lo;
            j["i_hi"] = hi;
        } else if (fn == "ipow") {
            j["b_lo"] = lo;
            j["b_hi"] = hi;
            j["e_lo"] = e_lo;
            j["e_hi"] = e_hi;
        } else {
            j["layout"] = layout;
            j["extents"] = ext;
        }
        return j;
    }
    static Case from_json(const json & j)
    {
        Case c;
        c.fn = j.at("fn");
        c.w = j.at("w");
        if (c.fn == "round_pow2") {
            c.lo = j.at("i_lo");
            c.hi = j.at("i_hi");
        } else if (c.fn == "ipow") {
            c.lo = j.at("b_lo");
            c.hi = j.at("b_hi");
            c.e_lo = j.at("e_lo");
            c.e_hi = j.at("e_hi");
        } else {
            c.layout = j.at("layout");
            c.ext = j.at("extents").get<std::vector<uint64_t>>();
        }
        return c;
    }
};

#ifndef VF_C18_SIZING
template <class T>
struct Num {
    static constexpr unsigned W = 8 * sizeof(T);
    static std::string name(const char * fn) { return std::string(fn) + "/w=" + std::to_string(W) + (std::is_same_v<T, unsigned long long> ? "/unsigned long long" : ""); }

    // all i in [lo,hi]; on a mismatch the single failing value is re-run as its own case
    static Verdict run_rp2(const Case & c)
    {
        uint64_t nontriv = 0;
        uint64_t i = c.lo;
        RefineScope rs([&] { return json{{"i_lo", i}, {"i_hi", i}}; });
        for (;; ++i) {
            T got = covfie::utility::round_pow2<T>(T(i));
            ref::u128 want = ref::round_pow2(i);
            if (ref::u128(got) == want) {
                // the same call with the template argument deduced from the argument's type
                T arg = T(i);
                got = T(covfie::utility::round_pow2(arg));
            }
            if (ref::u128(got) != want) {
                std::ostringstream os;
                os << "round_pow2<uint" << W << ">(" << i << ") = " << (unsigned long long)got << ", least power of two >= i is " << (unsigned long long)want;
                if (c.lo != c.hi) {
                    Case one = c;
                    one.lo = one.hi = i;
                    run_explicit(name("round_pow2"), one, run_rp2);
                }
                return os.str();
            }
            nontriv += (i & (i - 1)) != 0;
            if (i == c.hi) {
                break;
            }
        }
        record_bulk(name("round_pow2"), c.hi - c.lo + 1, nontriv);
        if (c.lo == c.hi) {
            Hasher h;
            h.pod(c.lo);
            record(name("round_pow2"), (c.lo & (c.lo - 1)) != 0, h.h, [&] { return c.to_json(); });
        }
        return std::nullopt;
    }
    static Verdict run_ipow(const Case & c)
    {
        uint64_t nontriv = 0, n = 0;
        uint64_t b = c.lo, e = c.e_lo;
        RefineScope rs([&] { return json{{"b_lo", b}, {"b_hi", b}, {"e_lo", e}, {"e_hi", e}}; });
        for (;; ++b) {
            for (e = c.e_lo;; ++e) {
                T got = covfie::utility::ipow<T>(T(b), T(e));
                uint64_t want = ref::ipow_mod(b, e, W);
                if (uint64_t(got) == want) {
                    T ab = T(b), ae = T(e);
                    got = T(covfie::utility::ipow(ab, ae));   // template argument deduced
                }
                if (e <= 64 && want != ref::ipow_naive(b, e, W)) {
                    infra_exit("reference ipow implementations disagree");
                }
                if (uint64_t(got) != want) {
                    std::ostringstream os;
                    os << "ipow<uint" << W << ">(" << b << "," << e << ") = " << (unsigned long long)got << ", b^e mod 2^" << W << " = " << want;
                    if (c.lo != c.hi || c.e_lo != c.e_hi) {
                        Case one = c;
                        one.lo = one.hi = b;
                        one.e_lo = one.e_hi = e;
                        run_explicit(name("ipow"), one, run_ipow);
                    }
                    return os.str();
                }
                ++n;
                nontriv += (b >= 2 && e >= 2);
                if (e == c.e_hi) {
                    break;
                }
            }
            if (b == c.hi) {
                break;
            }
        }
        if (c.lo == c.hi && c.e_lo == c.e_hi) {
            Hasher h;
            h.pod(c.lo).pod(c.e_lo);
            record(name("ipow"), c.lo >= 2 && c.e_lo >= 2, h.h, [&] { return c.to_json(); });
        } else {
            record_bulk(name("ipow"), n, nontriv);
        }
        return std::nullopt;
    }
    static Case rp2(uint64_t lo, uint64_t hi)
    {
        Case c;
        c.fn = "round_pow2";
        c.w = W;
        c.lo = lo;
        c.hi = hi;
        return c;
    }
    static Case ip(uint64_t b0, uint64_t b1, uint64_t e0, uint64_t e1)
    {
        Case c;
        c.fn = "ipow";
        c.w = W;
        c.lo = b0;
        c.hi = b1;
        c.e_lo = e0;
        c.e_hi = e1;
        return c;
    }
    // boundary values 2^k, 2^k +- 1 and random ones, as single-value cases (these shrink)
    static rc::Gen<uint64_t> gen_val(uint64_t lo, uint64_t hi)
    {
        return rc::gen::map(
            rc::gen::pair(in_range<unsigned>(0, W - 1), rc::gen::pair(in_range<int>(-2, 2), rc::gen::arbitrary<uint64_t>())),
            [lo, hi](std::pair<unsigned, std::pair<int, uint64_t>> p) {
                uint64_t v = (p.second.second % 3 == 0) ? (p.second.second >> (p.second.second % 64)) : ((uint64_t(1) << p.first) + uint64_t(int64_t(p.second.first)));
                if (W < 64) {
                    v &= (uint64_t(1) << W) - 1;
                }
                if (v < lo) {
                    v = lo;
                }
                if (v > hi) {
                    v = hi;
                }
                return v;
            }
        );
    }
    static void campaign_rp2()
    {
        const uint64_t top = uint64_t(1) << (W - 1);
        if (W <= 16) {
            run_explicit(name("round_pow2"), rp2(1, top), run_rp2);
            note_exhaustive(name("round_pow2") + ": every i in 1..2^" + std::to_string(W - 1));
        } else if (W == 32 && opt().thorough()) {
            // 2^31 values in 64 chunks
            for (uint64_t k = 0; k < 64; ++k) {
                run_explicit(name("round_pow2"), rp2(k * (top / 64) + 1, (k + 1) * (top / 64)), run_rp2);
            }
            note_exhaustive(name("round_pow2") + ": every i in 1..2^31");
        } else {
            // every 2^k and 2^k +- {1,2}, a dense block at both ends
            run_explicit(name("round_pow2"), rp2(1, tier<uint64_t>(1 << 20, 1 << 24)), run_rp2);
            run_explicit(name("round_pow2"), rp2(top - tier<uint64_t>(1 << 20, 1 << 24), top), run_rp2);
            for (unsigned k = 2; k < W; ++k) {
                uint64_t p = uint64_t(1) << k;
                run_explicit(name("round_pow2"), rp2(p - 2, std::min(p + 2, top)), run_rp2);
            }
        }
        if (W > 16) {
            rc_campaign<Case>(
                name("round_pow2"), tier(3000, 200000), 100, rc::gen::map(gen_val(1, top), [](uint64_t v) { return rp2(v, v); }), run_rp2
            );
        }
    }
    static void campaign_ipow()
    {
        const uint64_t maxv = (W == 64) ? ~uint64_t(0) : ((uint64_t(1) << W) - 1);
        if (W == 8) {
            run_explicit(name("ipow"), ip(0, 255, 0, 255), run_ipow);
            note_exhaustive(name("ipow") + ": all 65536 pairs (b,e)");
        } else if (W == 16) {
            run_explicit(name("ipow"), ip(0, maxv, 0, 20), run_ipow);
            note_exhaustive(name("ipow") + ": all b in 0..65535 x e in 0..20");
        } else {
            run_explicit(name("ipow"), ip(0, tier<uint64_t>(2000, 60000), 0, 70), run_ipow);
            run_explicit(name("ipow"), ip(maxv - tier<uint64_t>(2000, 60000), maxv, 0, 70), run_ipow);
        }
        rc_campaign<Case>(
            name("ipow"),
            tier(4000, 300000),
            100,
            rc::gen::map(
                rc::gen::pair(gen_val(0, maxv), rc::gen::oneOf(in_range<uint64_t>(0, 70), gen_val(0, maxv))),
                [](std::pair<uint64_t, uint64_t> p) { return ip(p.first, p.first, p.second, p.second); }
            ),
            run_ipow
        );
    }
    static void reg()
    {
        add_inst(name("round_pow2"), campaign_rp2, [](const json & j) { return run_rp2(Case::from_json(j)); });
        add_inst(name("ipow"), campaign_ipow, [](const json & j) { return run_ipow(Case::from_json(j)); });
    }
};

// calls whose arguments are literals, in initialisers of const / static const integers: contexts the compiler may
// evaluate at translation time (if the functions allow it), which must give what a run-time call gives
#define VF_L8(X, T) X(T, 1) X(T, 2) X(T, 3) X(T, 4) X(T, 5) X(T, 6) X(T, 7) X(T, 9) X(T, 17) X(T, 31) X(T, 33) X(T, 64) X(T, 65) X(T, 100) X(T, 127) X(T, 128)
#define VF_L16(X, T) VF_L8(X, T) X(T, 129) X(T, 255) X(T, 257) X(T, 1000) X(T, 1025) X(T, 4097) X(T, 16385) X(T, 32767) X(T, 32768)
#define VF_L32(X, T) VF_L16(X, T) X(T, 32769) X(T, 65537) X(T, 1048577) X(T, 16777217) X(T, 1000000000) X(T, 2147483647) X(T, 2147483648)
#define VF_L64(X, T) VF_L32(X, T) X(T, 2147483649) X(T, 4294967297) X(T, 1099511627777) X(T, 4611686018427387905) X(T, 9223372036854775807) X(T, 9223372036854775808ull)
#define VF_RP2_LIT(T, v)                                                                                                                       \
    {                                                                                                                                          \
        const T k = covfie::utility::round_pow2<T>(v);                                                                                         \
        static const T ks = covfie::utility::round_pow2<T>(v);                                                                                 \
        T arr[2] = {covfie::utility::round_pow2<T>(v), T(0)};                                                                                  \
        ++n;                                                                                                                                   \
        if (ref::u128(k) != ref::round_pow2(uint64_t(v)) || ks != k || arr[0] != k) {                                                           \
            std::ostringstream os;                                                                                                             \
            os << "round_pow2<" #T ">(" #v ") with a literal argument initialises a const integer with " << (unsigned long long)k << " (static const: " \
               << (unsigned long long)ks << "), least power of two >= i is " << (unsigned long long)ref::round_pow2(uint64_t(v));              \
            return os.str();                                                                                                                   \
        }                                                                                                                                      \
    }
#define VF_IPOW_LIT(T, b, e)                                                                                                                   \
    {                                                                                                                                          \
        const T k = covfie::utility::ipow<T>(b, e);                                                                                            \
        static const T ks = covfie::utility::ipow<T>(b, e);                                                                                    \
        ++n;                                                                                                                                   \
        if (uint64_t(k) != ref::ipow_mod(b, e, 8 * sizeof(T)) || ks != k) {                                                                     \
            std::ostringstream os;                                                                                                             \
            os << "ipow<" #T ">(" #b "," #e ") with literal arguments initialises a const integer with " << (unsigned long long)k;              \
            return os.str();                                                                                                                   \
        }                                                                                                                                      \
    }
using ull_t = unsigned long long;
Verdict run_literals(const Case &)
{
    uint64_t n = 0;
    VF_L8(VF_RP2_LIT, uint8_t)
    VF_L16(VF_RP2_LIT, uint16_t)
    VF_L32(VF_RP2_LIT, uint32_t)
    VF_L64(VF_RP2_LIT, uint64_t)
    VF_L64(VF_RP2_LIT, size_t)
    VF_L64(VF_RP2_LIT, ull_t)
    VF_IPOW_LIT(uint8_t, 3, 5)
    VF_IPOW_LIT(uint8_t, 2, 7)
    VF_IPOW_LIT(uint16_t, 7, 5)
    VF_IPOW_LIT(uint16_t, 2, 16)
    VF_IPOW_LIT(uint32_t, 10, 9)
    VF_IPOW_LIT(uint32_t, 3, 21)
    VF_IPOW_LIT(uint64_t, 10, 19)
    VF_IPOW_LIT(uint64_t, 3, 41)
    VF_IPOW_LIT(size_t, 2, 63)
    VF_IPOW_LIT(size_t, 16, 3)
    VF_IPOW_LIT(size_t, 1, 0)
    VF_IPOW_LIT(size_t, 0, 0)
    record_bulk("literal arguments", n, n);
    return std::nullopt;
}

void register_all()
{
    Num<uint8_t>::reg();
    Num<uint16_t>::reg();
    Num<uint32_t>::reg();
    Num<uint64_t>::reg();
    Num<unsigned long long>::reg();   // a distinct type from uint64_t on LP64: overloads / specialisations may tell them apart
    add_inst(
        "literal arguments",
        [] {
            Case c;
            c.fn = "literals";
            run_explicit("literal arguments", c, run_literals);
            note_exhaustive("literal arguments: a fixed table of round_pow2 / ipow calls with literal arguments initialising const and static const integers");
        },
        [](const json & j) { return run_literals(Case::from_json(j)); }
    );
}
#else
// ---------------------------------------------------------------- sizing consequence
template <Lay L, size_t N, class I = std::size_t>
struct Sizing {
    using IV = cv::vector_d<I, N>;
    using A = cb::array<cv::float1>;
    using SB = cb::strided<IV, A>;
    using LB = layout_t<L, IV, A>;
    static std::string name() { return std::string("sizing/") + lay_name(L) + "/N=" + std::to_string(N) + (std::is_same_v<I, std::size_t> ? "" : std::string("/I=") + tname<I>()); }
    static Verdict run(const Case & c)
    {
        typename SB::configuration_t e;
        uint64_t mx = 0;
        bool cube_pow2 = true;
        for (size_t k = 0; k < N; ++k) {
            e[k] = c.ext[k];
            mx = std::max(mx, c.ext[k]);
            cube_pow2 = cube_pow2 && c.ext[k] == c.ext[0] && (c.ext[k] & (c.ext[k] - 1)) == 0;
        }
        covfie::field<SB> sf(pack(e));
        covfie::field<LB> lf(sf);
        uint64_t allocated = lf.backend().get_backend().get_configuration()[0];
        // largest curve position of any in-range coordinate
        ref::u128 maxpos = 0;
        if constexpr (L == Lay::hilbert) {
            for (uint64_t x = 0; x < c.ext[0]; ++x) {
                for (uint64_t y = 0; y < c.ext[1]; ++y) {
                    ref::u128 p = LB::calculate_index({I(x), I(y)}, e);
                    maxpos = std::max(maxpos, p);
                }
            }
        } else {
            // the interleave is monotone in every coordinate: the far corner is the maximum
            std::vector<uint64_t> corner(c.ext);
            typename LB::contravariant_input_t::vector_t cc;
            for (size_t k = 0; k < N; ++k) {
                corner[k] -= 1;
                cc[k] = I(corner[k]);
            }
            maxpos = ref::morton(corner);
            if (ref::u128(LB::calculate_index(cc)) != maxpos) {
                return std::string("library Morton position of the far corner differs from the bit interleave");
            }
        }
        Hasher h;
        h.vec(c.ext);
        record(name(), !cube_pow2, h.h, [&] { return c.to_json(); });
        if (!(maxpos < ref::u128(allocated))) {
            std::ostringstream os;
            os << "largest curve position " << (unsigned long long)maxpos << " is not below the " << allocated << " allocated cells";
            return os.str();
        }
        return std::nullopt;
    }
    static Case mk(const std::vector<uint64_t> & e)
    {
        Case c;
        c.fn = "sizing";
        c.w = 64;
        c.layout = lay_name(L);
        c.ext = e;
        return c;
    }
    static void campaign()
    {
        if (L == Lay::morton_bmi2 && !have_bmi2()) {
            note(name() + ": skipped, CPU without BMI2");
            return;
        }
        static const uint64_t Bq[] = {0, 64, 24, 9, 5}, Bt[] = {0, 256, 64, 16, 8};
        const uint64_t B = tier(Bq[N], Bt[N]);
        std::vector<uint64_t> e(N, 1);
        uint64_t n = 0;
        while (true) {
            run_explicit(name(), mk(e), run);
            ++n;
            size_t k = 0;
            while (k < N && e[k] == B) {
                e[k++] = 1;
            }
            if (k == N) {
                break;
            }
            e[k]++;
        }
        note_exhaustive(name() + ": all " + std::to_string(n) + " extent vectors with extents in 1.." + std::to_string(B));
        // random beyond the bound: boundary-biased, one long axis, under a cell cap
        auto g = rc::gen::map(
            rc::gen::container<std::vector<std::pair<unsigned, int>>>(N, rc::gen::pair(in_range<unsigned>(0, 8), in_range<int>(-1, 1))),
            [](std::vector<std::pair<unsigned, int>> v) {
                std::vector<uint64_t> e;
                uint64_t alloc_side = 1;
                for (auto & p : v) {
                    uint64_t x = uint64_t(int64_t(uint64_t(1) << p.first) + p.second);
                    e.push_back(std::max<uint64_t>(1, x));
                }
                // keep allocated cells (side^N) under 2^21
                uint64_t cap = N == 1 ? 300 : N == 2 ? 300 : N == 3 ? 128 : 32;
                for (auto & x : e) {
                    x = std::min(x, cap);
                    alloc_side = std::max(alloc_side, x);
                }
                return mk(e);
            }
        );
        rc_campaign<Case>(name(), tier(150, 3000), 100, g, run);
    }
    static void reg()
    {
        add_inst(name(), campaign, [](const json & j) { return run(Case::from_json(j)); });
    }
};

void register_all()
{
    Sizing<Lay::morton_bmi2, 1>::reg();
    Sizing<Lay::morton_bmi2, 2>::reg();
    Sizing<Lay::morton_bmi2, 3>::reg();
    Sizing<Lay::morton_bmi2, 4>::reg();
    Sizing<Lay::morton_port, 1>::reg();
    Sizing<Lay::morton_port, 2>::reg();
    Sizing<Lay::morton_port, 3>::reg();
    Sizing<Lay::morton_port, 4>::reg();
#ifndef VF_NO_HILBERT
    Sizing<Lay::hilbert, 2>::reg();
    Sizing<Lay::hilbert, 2, uint16_t>::reg();
#endif
    // narrow coordinate scalars: the cell count must not be computed in the coordinate type
    Sizing<Lay::morton_bmi2, 2, uint16_t>::reg();
    Sizing<Lay::morton_port, 3, uint16_t>::reg();
    Sizing<Lay::morton_port, 2, unsigned>::reg();
}
#endif
}   // namespace
VF_MAIN(register_all)
