// C11: a field with an out-of-range default returns the configured default when
// any component lies outside the closed box, WITHOUT querying its backend, and
// otherwise exactly the backend's value at that coordinate.
// Observed with a probe backend (counts queries, remembers the coordinate).
#include "common.hpp"
#include "cov.hpp"
#include "probe_backend.hpp"

#include <cmath>
#include <limits>

namespace {
using namespace vf;

struct Case {
    std::vector<uint64_t> ext;                 // array-backed variant
    std::vector<uint64_t> lo, hi, def;         // box and default, bit patterns
    std::vector<std::vector<uint64_t>> xs;
    json to_json() const { return json{{"extents", ext}, {"lo_bits", lo}, {"hi_bits", hi}, {"default_bits", def}, {"x_bits", xs}}; }
    static Case from_json(const json & j)
    {
        Case c;
        c.ext = j.at("extents").get<std::vector<uint64_t>>();
        c.lo = j.at("lo_bits").get<std::vector<uint64_t>>();
        c.hi = j.at("hi_bits").get<std::vector<uint64_t>>();
        c.def = j.at("default_bits").get<std::vector<uint64_t>>();
        c.xs = j.at("x_bits").get<std::vector<std::vector<uint64_t>>>();
        return c;
    }
};
template <class X>
X from_bits(uint64_t b)
{
    X r;
    std::memcpy(&r, &b, sizeof(X));
    return r;
}
template <class X>
uint64_t to_bits(X r)
{
    uint64_t u = 0;
    std::memcpy(&u, &r, sizeof(X));
    return u;
}
template <class X>
X step(X x, int j)
{
    if constexpr (std::is_floating_point_v<X>) {
        for (; j > 0; --j) {
            x = std::nextafter(x, std::numeric_limits<X>::infinity());
        }
        for (; j < 0; ++j) {
            x = std::nextafter(x, -std::numeric_limits<X>::infinity());
        }
    } else {
        for (; j > 0; --j) {
            if (x < std::numeric_limits<X>::max()) {
                ++x;
            }
        }
        for (; j < 0; ++j) {
            if (x > std::numeric_limits<X>::lowest()) {
                --x;
            }
        }
    }
    return x;
}
template <class X>
std::string show(X x)
{
    if constexpr (std::is_floating_point_v<X>) {
        return ld_str(x);
    } else {
        return std::to_string(x);
    }
}
template <class X>
rc::Gen<uint64_t> gen_any(std::vector<X> anchors)
{
    return rc::gen::map(rc::gen::tuple(in_range<unsigned>(0, 11), rc::gen::arbitrary<uint64_t>(), in_range<int>(-1, 1)), [anchors](std::tuple<unsigned, uint64_t, int> t) {
        uint64_t r = std::get<1>(t);
        X v;
        switch (std::get<0>(t)) {
            case 0: v = std::numeric_limits<X>::lowest(); break;
            case 1: v = std::numeric_limits<X>::max(); break;
            case 2:
                if constexpr (std::is_floating_point_v<X>) {
                    v = (r & 1) ? std::numeric_limits<X>::infinity() : -std::numeric_limits<X>::infinity();
                } else {
                    v = X(0);
                }
                break;
            case 3:
                if constexpr (std::is_floating_point_v<X>) {
                    v = (r & 1) ? -X(0) : X(0);
                } else {
                    v = X(r % 7);
                }
                break;
            case 4:
            case 5:
            case 6:
            case 7:
            case 8:
            case 9: v = step(anchors[r % anchors.size()], std::get<2>(t)); break;   // equal / adjacent to a bound
            default:
                v = from_bits<X>(r);
                if constexpr (std::is_floating_point_v<X>) {
                    if (std::isnan(v)) {
                        v = X(int64_t(r % 2001) - 1000) / X(8);
                    }
                }
        }
        return to_bits<X>(v);
    });
}
template <class T>
rc::Gen<uint64_t> gen_default()
{
    return rc::gen::map(rc::gen::arbitrary<uint64_t>(), [](uint64_t r) {
        T v = from_bits<T>(r);
        if (!std::isfinite(v)) {
            v = T(-1) - T(r % 97);
        }
        return to_bits<T>(v);
    });
}

template <class X, size_t N, class T, size_t M>
struct OverProbe {
    using P = probe<cv::vector_d<X, N>, cv::vector_d<T, M>>;
    using B = cb::backup<P>;
    static std::string name() { return std::string("backup<probe>/X=") + tname<X>() + "/N=" + std::to_string(N) + "/T=" + tname<T>() + "/M=" + std::to_string(M); }
    static Verdict run(const Case & c)
    {
        probe_stats st;
        typename B::configuration_t cfg;
        for (size_t k = 0; k < N; ++k) {
            cfg.min[k] = from_bits<X>(c.lo[k]);
            cfg.max[k] = from_bits<X>(c.hi[k]);
        }
        for (size_t j = 0; j < M; ++j) {
            cfg.default_value[j] = from_bits<T>(c.def[j]);
        }
        covfie::field<B> f(pack(cfg, typename P::configuration_t{&st}));
        // every other case looks up through a copy of a view whose original has since been pointed at a field with
        // another box and default, and destroyed
        probe_stats st_other;
        typename B::configuration_t cfg_other = cfg;
        for (size_t k = 0; k < N; ++k) {
            cfg_other.min[k] = cfg_other.max[k] = X(1);
        }
        for (size_t j = 0; j < M; ++j) {
            cfg_other.default_value[j] = T(77);
        }
        covfie::field<B> other(pack(cfg_other, typename P::configuration_t{&st_other}));
        const bool via_copy = ((c.lo[0] ^ c.hi[0] ^ c.xs.size()) & 1) != 0;
        typename covfie::field<B>::view_t v = via_copy ? detached_view<B>(f, other) : typename covfie::field<B>::view_t(f);
        if (via_copy) {
            label("lookups through a copy of a view whose original was reassigned and destroyed");
        }
        for (auto & xb : c.xs) {
            typename covfie::field<B>::coordinate_t x;
            bool outside = false;
            int minimal = 0, on_bound = 0;
            for (size_t k = 0; k < N; ++k) {
                x[k] = from_bits<X>(xb[k]);
                bool o = x[k] < cfg.min[k] || x[k] > cfg.max[k];
                outside = outside || o;
                if (o && (x[k] == step(cfg.min[k], -1) || x[k] == step(cfg.max[k], 1))) {
                    minimal++;
                } else if (o) {
                    minimal += 100;
                }
                on_bound += (x[k] == cfg.min[k] || x[k] == cfg.max[k]);
            }
            const unsigned long before = st.queries;
            auto got = v.at(x);
            bool nt = minimal == 1 || (!outside && on_bound > 0);
            if (minimal == 1) {
                label("exactly one component outside by the minimal amount");
            }
            if (!outside && on_bound > 0) {
                label("inside with a component exactly on a bound");
            }
            label(outside ? "outside" : "inside");
            Hasher h;
            h.vec(c.lo).vec(c.hi).vec(c.def).vec(xb);
            record(name(), nt, h.h, [&] { return json{{"lo_bits", c.lo}, {"hi_bits", c.hi}, {"default_bits", c.def}, {"x_bits", std::vector<std::vector<uint64_t>>{xb}}, {"extents", c.ext}}; });
            if (outside) {
                if (st.queries != before) {
                    return "coordinate outside the box but the backend was queried " + std::to_string(st.queries - before) + " time(s)";
                }
                for (size_t j = 0; j < M; ++j) {
                    if (to_bits<T>(got[j]) != to_bits<T>(cfg.default_value[j])) {
                        return "coordinate outside the box: component " + std::to_string(j) + " is " + show(got[j]) + ", configured default is " + show(cfg.default_value[j]);
                    }
                }
            } else {
                if (st.queries != before + 1) {
                    return "coordinate inside the closed box but the backend was queried " + std::to_string(st.queries - before) + " time(s)";
                }
                for (size_t k = 0; k < N; ++k) {
                    if (!(st.last[k] == ld(x[k]))) {
                        return "backend queried at component " + std::to_string(k) + " = " + ld_str(st.last[k]) + ", coordinate was " + show(x[k]);
                    }
                }
                for (size_t j = 0; j < M; ++j) {
                    if (!(got[j] == P::non_owning_data_t::value(st.queries, j))) {
                        return "inside the box: component " + std::to_string(j) + " is " + show(got[j]) + ", backend returned " + show(P::non_owning_data_t::value(st.queries, j));
                    }
                }
            }
        }
        return std::nullopt;
    }
    static rc::Gen<Case> gen()
    {
        auto bound = gen_any<X>({X(0), X(3), X(10)});
        return rc::gen::mapcat(rc::gen::pair(rc::gen::container<std::vector<std::pair<uint64_t, uint64_t>>>(N, rc::gen::pair(bound, bound)), rc::gen::container<std::vector<uint64_t>>(M, gen_default<T>())), [](std::pair<std::vector<std::pair<uint64_t, uint64_t>>, std::vector<uint64_t>> in) {
            Case c;
            c.def = in.second;
            std::vector<X> anchors;
            // "all boxes": one case in eight keeps an inverted bound pair (lo > hi on some axis), for which every
            // coordinate is outside by the definition (c < lo or c > hi)
            const bool keep_inverted = (in.second.empty() ? 0 : in.second[0] % 8) == 0;
            for (auto & b : in.first) {
                X a = from_bits<X>(b.first), z = from_bits<X>(b.second);
                if (z < a && !keep_inverted) {
                    std::swap(a, z);
                }
                c.lo.push_back(to_bits<X>(a));
                c.hi.push_back(to_bits<X>(z));
                anchors.push_back(a);
                anchors.push_back(z);
            }
            // mostly start from a point on/inside the box and disturb few components
            auto coord = rc::gen::exec([c, anchors] {
                std::vector<uint64_t> x;
                unsigned disturb = *in_range<unsigned>(0, N);
                for (size_t k = 0; k < N; ++k) {
                    bool d = (*in_range<unsigned>(0, N)) < disturb + 1;
                    if (d) {
                        x.push_back(*gen_any<X>(anchors));
                    } else {
                        X a = from_bits<X>(c.lo[k]), z = from_bits<X>(c.hi[k]);
                        x.push_back(to_bits<X>(*in_range<unsigned>(0, 1) ? a : z));
                    }
                }
                return x;
            });
            return rc::gen::map(rc::gen::container<std::vector<std::vector<uint64_t>>>(8, coord), [c](std::vector<std::vector<uint64_t>> xs) {
                Case d = c;
                d.xs = xs;
                return d;
            });
        });
    }
    static void campaign() { rc_campaign<Case>(name(), tier(800, 80000), 100, gen(), run); }
    static void reg()
    {
        add_inst(name(), campaign, [](const json & j) { return run(Case::from_json(j)); });
    }
};

// backup over real array storage with a box smaller than the extents, under ASan
template <class I, size_t N>
struct OverArray {
    using SB = cb::strided<cv::vector_d<I, N>, cb::array<cv::float2>>;
    using B = cb::backup<SB>;
    static std::string name() { return std::string("backup<strided-array>/I=") + tname<I>() + "/N=" + std::to_string(N); }
    static Verdict run(const Case & c)
    {
        typename SB::configuration_t e;
        uint64_t cells = 1;
        for (size_t k = 0; k < N; ++k) {
            e[k] = c.ext[k];
            cells *= c.ext[k];
        }
        covfie::field<SB> s(pack(e));
        {
            typename covfie::field<SB>::view_t sv(s);
            for (uint64_t r = 0; r < cells; ++r) {
                typename covfie::field<SB>::coordinate_t t;
                uint64_t q = r;
                for (size_t k = N; k-- > 0;) {
                    t[k] = I(q % c.ext[k]);
                    q /= c.ext[k];
                }
                sv.at(t)[0] = float(r + 1);
                sv.at(t)[1] = -float(r + 1);
            }
        }
        typename B::configuration_t cfg;
        for (size_t k = 0; k < N; ++k) {
            cfg.min[k] = from_bits<I>(c.lo[k]);
            cfg.max[k] = from_bits<I>(c.hi[k]);
            if (cfg.min[k] < I(0) || !(cfg.min[k] <= cfg.max[k]) || uint64_t(cfg.max[k]) >= c.ext[k]) {
                return std::string("bad case: box not inside the extents");
            }
        }
        cfg.default_value[0] = from_bits<float>(c.def[0]);
        cfg.default_value[1] = from_bits<float>(c.def[1]);
        covfie::field<B> f(pack(cfg, typename SB::owning_data_t(s.backend())));
        typename B::configuration_t cfg_other = cfg;
        for (size_t k = 0; k < N; ++k) {
            cfg_other.min[k] = cfg_other.max[k] = I(0);
        }
        cfg_other.default_value[0] = 77.f;
        covfie::field<B> other(pack(cfg_other, typename SB::owning_data_t(s.backend())));
        const bool via_copy = ((c.lo[0] ^ c.hi[0] ^ c.xs.size()) & 1) != 0;
        typename covfie::field<B>::view_t v = via_copy ? detached_view<B>(f, other) : typename covfie::field<B>::view_t(f);
        if (via_copy) {
            label("lookups through a copy of a view whose original was reassigned and destroyed");
        }
        for (auto & xb : c.xs) {
            typename covfie::field<B>::coordinate_t x;
            bool outside = false;
            uint64_t rank = 0;
            int minimal = 0, on_bound = 0;
            for (size_t k = 0; k < N; ++k) {
                x[k] = from_bits<I>(xb[k]);
                bool o = x[k] < cfg.min[k] || x[k] > cfg.max[k];
                outside = outside || o;
                minimal += o ? ((x[k] == step(cfg.min[k], -1) || x[k] == step(cfg.max[k], 1)) ? 1 : 100) : 0;
                on_bound += (x[k] == cfg.min[k] || x[k] == cfg.max[k]);
                rank = rank * c.ext[k] + uint64_t(x[k]);
            }
            auto got = v.at(x);
            Hasher h;
            h.vec(c.ext).vec(c.lo).vec(c.hi).vec(c.def).vec(xb);
            record(name(), minimal == 1 || (!outside && on_bound > 0), h.h, [&] { return json{{"lo_bits", c.lo}, {"hi_bits", c.hi}, {"default_bits", c.def}, {"x_bits", std::vector<std::vector<uint64_t>>{xb}}, {"extents", c.ext}}; });
            if (outside) {
                if (to_bits<float>(got[0]) != to_bits<float>(cfg.default_value[0]) || to_bits<float>(got[1]) != to_bits<float>(cfg.default_value[1])) {
                    return "outside the box: got (" + show(got[0]) + "," + show(got[1]) + "), default is (" + show(cfg.default_value[0]) + "," + show(cfg.default_value[1]) + ")";
                }
            } else if (!(got[0] == float(rank + 1) && got[1] == -float(rank + 1))) {
                return "inside the box: got (" + show(got[0]) + "," + show(got[1]) + "), stored value is (+-" + std::to_string(rank + 1) + ")";
            }
        }
        return std::nullopt;
    }
    static rc::Gen<Case> gen()
    {
        const uint64_t mx = N <= 2 ? 16 : N == 3 ? 7 : 5;
        return rc::gen::mapcat(rc::gen::container<std::vector<uint64_t>>(N, in_range<uint64_t>(1, mx)), [](std::vector<uint64_t> ext) {
            return rc::gen::exec([ext] {
                Case c;
                c.ext = ext;
                std::vector<I> anchors;
                for (auto e : ext) {
                    uint64_t a = *in_range<uint64_t>(0, e - 1), z = *in_range<uint64_t>(0, e - 1);
                    if (z < a) {
                        std::swap(a, z);
                    }
                    c.lo.push_back(to_bits<I>(I(a)));
                    c.hi.push_back(to_bits<I>(I(z)));
                    anchors.push_back(I(a));
                    anchors.push_back(I(z));
                }
                c.def = {*gen_default<float>(), *gen_default<float>()};
                c.xs = *rc::gen::container<std::vector<std::vector<uint64_t>>>(8, rc::gen::container<std::vector<uint64_t>>(N, gen_any<I>(anchors)));
                return c;
            });
        });
    }
    static void campaign() { rc_campaign<Case>(name(), tier(500, 50000), 100, gen(), run); }
    static void reg()
    {
        add_inst(name(), campaign, [](const json & j) { return run(Case::from_json(j)); });
    }
};

void register_all()
{
    // N, M in 1..4 independently; coordinate scalar rotates over int/unsigned/long/size_t/float/double
    OverProbe<int, 1, float, 1>::reg();
    OverProbe<float, 1, double, 2>::reg();
    OverProbe<std::size_t, 1, float, 3>::reg();
    OverProbe<double, 1, double, 4>::reg();
    OverProbe<double, 2, float, 1>::reg();
    OverProbe<unsigned, 2, double, 2>::reg();
    OverProbe<float, 2, float, 3>::reg();
    OverProbe<long, 2, double, 4>::reg();
    OverProbe<long, 3, float, 1>::reg();
    OverProbe<double, 3, double, 2>::reg();
    OverProbe<int, 3, float, 3>::reg();
    OverProbe<float, 3, double, 4>::reg();
    OverProbe<float, 4, float, 1>::reg();
    OverProbe<std::size_t, 4, double, 2>::reg();
    OverProbe<double, 4, float, 3>::reg();
    OverProbe<unsigned, 4, double, 4>::reg();
    OverProbe<uint16_t, 2, float, 2>::reg();   // narrow unsigned coordinates: subject to integer promotion in comparisons
    OverProbe<uint8_t, 3, double, 1>::reg();
    OverProbe<short, 1, float, 3>::reg();
    OverArray<std::size_t, 1>::reg();
    OverArray<int, 2>::reg();
    OverArray<unsigned, 3>::reg();
    OverArray<std::size_t, 4>::reg();
    OverArray<int, 1>::reg();
    OverArray<std::size_t, 2>::reg();
}
}   // namespace
VF_MAIN(register_all)
