// C04: nearest-neighbour lookup returns the backend's value at a lattice point
// every component of which lies within one half of the coordinate component,
// for float and double coordinates alike.
// Oracle: |p_k - x_k| <= 1/2 evaluated exactly in long double; over identity<long^N>
// the chosen lattice point is returned itself, over array storage the stored value
// encodes its own coordinate.
#include "common.hpp"
#include "cov.hpp"
#include "ref.hpp"

#include <cmath>

namespace {
using namespace vf;

struct Case {
    std::vector<uint64_t> ext;     // array-backed: extents; identity: empty
    std::vector<uint64_t> xbits;   // coordinate components as bit patterns of R
    std::vector<uint64_t> prev = {};   // if not empty: a coordinate looked up through the same view immediately before x
    json to_json() const { return json{{"extents", ext}, {"x_bits", xbits}, {"prev_bits", prev}}; }
    static Case from_json(const json & j) { return Case{j.at("extents").get<std::vector<uint64_t>>(), j.at("x_bits").get<std::vector<uint64_t>>(), j.value("prev_bits", std::vector<uint64_t>{})}; }
};

template <class R>
R from_bits(uint64_t b)
{
    R r;
    if constexpr (sizeof(R) == 4) {
        uint32_t u = uint32_t(b);
        std::memcpy(&r, &u, 4);
    } else {
        std::memcpy(&r, &b, 8);
    }
    return r;
}
template <class R>
uint64_t to_bits(R r)
{
    if constexpr (sizeof(R) == 4) {
        uint32_t u;
        std::memcpy(&u, &r, 4);
        return u;
    } else {
        uint64_t u;
        std::memcpy(&u, &r, 8);
        return u;
    }
}
template <class R>
R step(R x, int j)
{
    for (; j > 0; --j) {
        x = std::nextafter(x, std::numeric_limits<R>::infinity());
    }
    for (; j < 0; ++j) {
        x = std::nextafter(x, -std::numeric_limits<R>::infinity());
    }
    return x;
}
// distance of x to the nearest half-integer, in ulps of x (capped)
template <class R>
bool near_half(R x)
{
    ld h = std::floor(ld(x)) + 0.5L;
    ld d = std::fabs(ld(x) - h);
    ld ulp = std::fabs(ld(std::nextafter(x, std::numeric_limits<R>::infinity())) - ld(x));
    return d <= 4 * ulp && ulp < 0.25L;
}
template <class R>
bool beyond_float(R x)
{
    return sizeof(R) == 8 && std::fabs(ld(x)) > 16777216.0L;
}

// a lookup is a function of the coordinate alone: half of the cases look another coordinate up through the same view
// first - the centre of the cell x rounds to or of a neighbouring cell (so that x is about 1/2 away from it)
template <class R>
rc::Gen<Case> with_previous(rc::Gen<Case> g, bool array_backed)
{
    return rc::gen::mapcat(std::move(g), [array_backed](Case c) {
        return rc::gen::map(rc::gen::tuple(rc::gen::arbitrary<bool>(), rc::gen::container<std::vector<int>>(c.xbits.size(), in_range<int>(-1, 1))), [c, array_backed](std::tuple<bool, std::vector<int>> t) {
            Case r = c;
            if (std::get<0>(t)) {
                for (size_t k = 0; k < c.xbits.size(); ++k) {
                    ld m = std::nearbyint(ld(from_bits<R>(c.xbits[k]))) + std::get<1>(t)[k];
                    if (array_backed) {
                        m = std::min(std::max(m, 0.0L), ld(c.ext[k]) - 1);
                    }
                    r.prev.push_back(to_bits<R>(R(m)));
                }
            }
            return r;
        });
    });
}

// one coordinate component for an axis of the given extent: boundary-biased
template <class R>
rc::Gen<uint64_t> gen_component(int64_t lo_cell, int64_t hi_cell, bool open_domain)
{
    // open_domain: x must stay inside (lo_cell - 0.5, hi_cell + 0.5)
    return rc::gen::map(
        rc::gen::tuple(in_range<unsigned>(0, 5), in_range<int64_t>(lo_cell - 1, hi_cell), in_range<int>(-2, 2), in_range<unsigned>(0, 1023)),
        [=](std::tuple<unsigned, int64_t, int, unsigned> t) {
            int64_t m = std::get<1>(t);
            R x;
            switch (std::get<0>(t)) {
                case 0:
                case 1:
                case 2: x = step(R(ld(m) + 0.5L), std::get<2>(t)); break;                 // half-integer +- j ulp
                case 3: x = step(R(std::max(m, lo_cell)), std::get<2>(t)); break;         // integer +- j ulp
                default: x = R(ld(std::max(m, lo_cell)) + (ld(std::get<3>(t)) / 1024.0L - 0.5L));
            }
            if (open_domain) {
                R lo = R(ld(lo_cell) - 0.5L), hi = R(ld(hi_cell) + 0.5L);
                if (!(x > lo)) {
                    x = step(lo, 1 + (std::get<2>(t) > 0 ? std::get<2>(t) : 0));
                }
                if (!(x < hi)) {
                    x = step(hi, -1 - (std::get<2>(t) > 0 ? std::get<2>(t) : 0));
                }
                if (!(x > lo)) {
                    x = R(lo_cell);
                }
            }
            return to_bits<R>(x);
        }
    );
}

template <class R, size_t N, class IdxT = long>
struct OverIdentity {
    using B = cb::nearest_neighbour<cb::identity<cv::vector_d<IdxT, N>>, cv::vector_d<R, N>>;
    static std::string name() { return std::string("nn/identity<") + tname<IdxT>() + ">/N=" + std::to_string(N) + "/R=" + tname<R>(); }
    static Verdict run(const Case & c)
    {
        covfie::field<B> f(pack(std::monostate{}, std::monostate{}));
        typename covfie::field<B>::view_t v(f);
        typename covfie::field<B>::coordinate_t x;
        bool nt = false;
        for (size_t k = 0; k < N; ++k) {
            x[k] = from_bits<R>(c.xbits[k]);
            nt = nt || near_half(x[k]) || beyond_float(x[k]);
            if (beyond_float(x[k])) {
                label("double coordinate beyond single precision");
            }
        }
        if (!c.prev.empty()) {
            typename covfie::field<B>::coordinate_t px;
            for (size_t k = 0; k < N; ++k) {
                px[k] = from_bits<R>(c.prev[k]);
            }
            (void)v.at(px);
            label("second lookup through the same view");
        }
        auto p = v.at(x);
        Hasher h;
        h.vec(c.xbits).vec(c.prev);
        if (nt) {
            label("component within 4 ulp of a half-integer");
        }
        record(name(), nt, h.h, [&] {
            json j = c.to_json();
            std::vector<std::string> xs;
            for (size_t k = 0; k < N; ++k) {
                xs.push_back(ld_str(x[k]));
            }
            j["x"] = xs;
            return j;
        });
        for (size_t k = 0; k < N; ++k) {
            ld d = std::fabs(ld(p[k]) - ld(x[k]));
            if (!(d <= 0.5L)) {
                return "component " + std::to_string(k) + ": x = " + ld_str(x[k]) + " was looked up at lattice coordinate " + std::to_string(p[k]) + ", distance " + ld_str(d) + " > 1/2";
            }
        }
        return std::nullopt;
    }
    static rc::Gen<Case> gen()
    {
        // magnitude classes: small, around 2^23/2^24 (float spacing 1/2 and 1), around 2^52/2^53, negative
        auto comp = rc::gen::mapcat(in_range<unsigned>(0, 7), [](unsigned cls) {
            int64_t c;
            switch (cls) {
                case 0:
                case 1: c = 0; break;
                case 2: c = int64_t(1) << 23; break;
                case 3: c = int64_t(1) << 24; break;
                case 4: c = sizeof(R) == 8 ? (int64_t(1) << 52) : (int64_t(1) << 22); break;
                case 5: c = sizeof(R) == 8 ? (int64_t(1) << 53) : (int64_t(1) << 25); break;
                case 6: c = -(int64_t(1) << 24); break;
                default: c = sizeof(R) == 8 ? (int64_t(1) << 31) : 1000;
            }
            if (sizeof(IdxT) == 4 && (c > (int64_t(1) << 30) || c < -(int64_t(1) << 30))) {
                c = 1 << 20;   // the rounded coordinate must be representable in the backend's 32-bit coordinate type
            }
            if (std::is_same_v<IdxT, float> && (c >= (int64_t(1) << 22) || c <= -(int64_t(1) << 22))) {
                c = 1 << 20;   // every lattice point near the coordinate must be a value of the backend's (float) coordinate type
            }
            return gen_component<R>(c - 40, c + 40, false);
        });
        return rc::gen::map(rc::gen::container<std::vector<uint64_t>>(N, comp), [](std::vector<uint64_t> xb) { return Case{{}, xb}; });
    }
    static void campaign()
    {
        // every half-integer and integer in [-40,40] +- j ulp on the first axis (others at a tie)
        uint64_t n = 0;
        for (int m2 = -80; m2 <= 80; ++m2) {
            for (int j = -2; j <= 2; ++j) {
                Case c;
                c.xbits.assign(N, to_bits<R>(R(2.5)));
                c.xbits[0] = to_bits<R>(step(R(m2 / 2.0), j));
                run_explicit(name(), c, run);
                ++n;
            }
        }
        note_exhaustive(name() + ": " + std::to_string(n) + " boundary coordinates (every multiple of 1/2 in [-40,40] +- 0..2 ulp)");
        rc_campaign<Case>(name(), tier(4000, 400000), 100, with_previous<R>(gen(), false), run);
    }
    static void reg()
    {
        add_inst(name(), campaign, [](const json & j) { return run(Case::from_json(j)); });
    }
};

template <class R, size_t N, class T>
struct OverArray {
    using SB = cb::strided<cv::vector_d<std::size_t, N>, cb::array<cv::vector_d<T, 1>>>;
    using B = cb::nearest_neighbour<SB, cv::vector_d<R, N>>;
    static std::string name() { return std::string("nn/strided-array/N=") + std::to_string(N) + "/R=" + tname<R>() + "/T=" + tname<T>(); }
    static Verdict run(const Case & c)
    {
        typename SB::configuration_t e;
        uint64_t cells = 1;
        for (size_t k = 0; k < N; ++k) {
            e[k] = c.ext[k];
            cells *= c.ext[k];
        }
        // store rank+1 at every lattice point (row-major rank: nd_map's last axis runs fastest)
        covfie::field<SB> s(pack(e));
        {
            typename covfie::field<SB>::view_t sv(s);
            std::vector<uint64_t> cc(N, 0);
            for (uint64_t r = 0; r < cells; ++r) {
                typename covfie::field<SB>::coordinate_t t;
                uint64_t q = r;
                for (size_t k = N; k-- > 0;) {
                    t[k] = q % c.ext[k];
                    q /= c.ext[k];
                }
                sv.at(t)[0] = T(r + 1);
            }
        }
        covfie::field<B> f(pack(std::monostate{}, typename SB::owning_data_t(s.backend())));
        typename covfie::field<B>::view_t w(f);
        typename covfie::field<B>::coordinate_t x;
        bool nt = false;
        for (size_t k = 0; k < N; ++k) {
            x[k] = from_bits<R>(c.xbits[k]);
            nt = nt || near_half(x[k]);
            if (!(ld(x[k]) > -0.5L && ld(x[k]) < ld(c.ext[k]) - 0.5L)) {
                return std::string("bad case: coordinate outside the documented domain");
            }
        }
        if (!c.prev.empty()) {
            typename covfie::field<B>::coordinate_t px;
            for (size_t k = 0; k < N; ++k) {
                px[k] = from_bits<R>(c.prev[k]);
            }
            (void)w.at(px);
            label("second lookup through the same view");
        }
        uint64_t rank = uint64_t(w.at(x)[0]) - 1;
        Hasher h;
        h.vec(c.ext).vec(c.xbits).vec(c.prev);
        if (nt) {
            label("component within 4 ulp of a half-integer");
        }
        record(name(), nt, h.h, [&] {
            json j = c.to_json();
            std::vector<std::string> xs;
            for (size_t k = 0; k < N; ++k) {
                xs.push_back(ld_str(x[k]));
            }
            j["x"] = xs;
            return j;
        });
        if (rank >= cells) {
            return std::string("returned value is not one of the stored lattice values");
        }
        // decode the row-major rank into the lattice point that was read
        for (size_t k = N; k-- > 0;) {
            uint64_t p = rank % c.ext[k];
            rank /= c.ext[k];
            ld d = std::fabs(ld(p) - ld(x[k]));
            if (!(d <= 0.5L)) {
                return "component " + std::to_string(k) + ": x = " + ld_str(x[k]) + " returned the value stored at lattice coordinate " + std::to_string(p) + ", distance " + ld_str(d) + " > 1/2";
            }
        }
        return std::nullopt;
    }
    static rc::Gen<Case> gen()
    {
        uint64_t mx = N == 1 ? 40 : N == 2 ? 40 : N == 3 ? 12 : 6;
        return rc::gen::mapcat(rc::gen::container<std::vector<uint64_t>>(N, in_range<uint64_t>(1, mx)), [](std::vector<uint64_t> ext) {
            return rc::gen::exec([ext] {
                Case c;
                c.ext = ext;
                for (auto e : ext) {
                    c.xbits.push_back(*gen_component<R>(0, int64_t(e) - 1, true));
                }
                return c;
            });
        });
    }
    static void campaign()
    {
        if (N == 1) {
            uint64_t n = 0;
            for (uint64_t e = 1; e <= 40; ++e) {
                for (int m2 = -1; m2 <= int(2 * e - 1); ++m2) {
                    for (int j = -2; j <= 2; ++j) {
                        R x = step(R(m2 / 2.0), j);
                        if (!(ld(x) > -0.5L && ld(x) < ld(e) - 0.5L)) {
                            continue;
                        }
                        run_explicit(name(), Case{{e}, {to_bits<R>(x)}}, run);
                        ++n;
                        for (int d : {-1, 1}) {
                            ld m = std::nearbyint(ld(x)) + d;
                            if (m >= 0 && m <= ld(e) - 1) {
                                run_explicit(name(), Case{{e}, {to_bits<R>(x)}, {to_bits<R>(R(m))}}, run);
                                ++n;
                            }
                        }
                    }
                }
            }
            note_exhaustive(name() + ": " + std::to_string(n) + " coordinates: every extent 1..40, every multiple of 1/2 in the domain +- 0..2 ulp, each alone and after a lookup of either neighbouring cell through the same view");
        }
        rc_campaign<Case>(name(), tier(1500, 100000), 100, with_previous<R>(gen(), true), run);
    }
    static void reg()
    {
        add_inst(name(), campaign, [](const json & j) { return run(Case::from_json(j)); });
    }
};

// nearest_neighbour over a permuting layer over row-major storage: backend axis k receives outer component P[k]
template <class R, class T, size_t... P>
struct OverShuffled {
    static constexpr size_t N = sizeof...(P);
    static constexpr size_t perm[N] = {P...};
    using SB = cb::strided<cv::vector_d<std::size_t, N>, cb::array<cv::vector_d<T, 1>>>;
    using SH = cb::shuffle<SB, std::index_sequence<P...>>;
    using B = cb::nearest_neighbour<SH, cv::vector_d<R, N>>;
    static std::string name()
    {
        std::string s = "nn/shuffle<";
        for (size_t k = 0; k < N; ++k) {
            s += std::to_string(perm[k]) + (k + 1 < N ? "," : "");
        }
        return s + ">/strided-array/N=" + std::to_string(N) + "/R=" + tname<R>() + "/T=" + tname<T>();
    }
    static Verdict run(const Case & c)
    {
        typename SB::configuration_t e;
        uint64_t cells = 1;
        bool unequal = false;
        for (size_t k = 0; k < N; ++k) {
            e[k] = c.ext[k];
            cells *= c.ext[k];
            unequal = unequal || c.ext[k] != c.ext[0];
        }
        covfie::field<SB> s(pack(e));
        {
            typename covfie::field<SB>::view_t sv(s);
            for (uint64_t r = 0; r < cells; ++r) {
                typename covfie::field<SB>::coordinate_t t;
                uint64_t q = r;
                for (size_t k = N; k-- > 0;) {
                    t[k] = q % c.ext[k];
                    q /= c.ext[k];
                }
                sv.at(t)[0] = T(r + 1);
            }
        }
        covfie::field<B> f(pack(std::monostate{}, std::monostate{}, typename SB::owning_data_t(s.backend())));
        typename covfie::field<B>::view_t w(f);
        typename covfie::field<B>::coordinate_t x;
        bool nt = false;
        for (size_t k = 0; k < N; ++k) {
            x[perm[k]] = from_bits<R>(c.xbits[k]);   // xbits[k] belongs to storage axis k
            nt = nt || near_half(x[perm[k]]);
            if (!(ld(x[perm[k]]) > -0.5L && ld(x[perm[k]]) < ld(c.ext[k]) - 0.5L)) {
                return std::string("bad case: coordinate outside the documented domain");
            }
        }
        uint64_t rank = uint64_t(w.at(x)[0]) - 1;
        Hasher h;
        h.vec(c.ext).vec(c.xbits);
        if (unequal) {
            label("permuted axes with unequal extents");
        }
        record(name(), nt || unequal, h.h, [&] { return c.to_json(); });
        if (rank >= cells) {
            return std::string("returned value is not one of the stored lattice values");
        }
        for (size_t k = N; k-- > 0;) {
            uint64_t p = rank % c.ext[k];
            rank /= c.ext[k];
            ld d = std::fabs(ld(p) - ld(x[perm[k]]));
            if (!(d <= 0.5L)) {
                return "storage axis " + std::to_string(k) + " (outer component " + std::to_string(perm[k]) + "): x = " + ld_str(x[perm[k]]) + " returned the value stored at lattice coordinate " + std::to_string(p) + ", distance " + ld_str(d) + " > 1/2";
            }
        }
        return std::nullopt;
    }
    static void campaign() { rc_campaign<Case>(name(), tier(1500, 100000), 100, OverArray<R, N, T>::gen(), run); }
    static void reg()
    {
        add_inst(name(), campaign, [](const json & j) { return run(Case::from_json(j)); });
    }
};

void register_all()
{
    OverShuffled<float, float, 1, 0>::reg();
    OverShuffled<double, double, 2, 0, 1>::reg();
    OverShuffled<float, double, 3, 1, 0, 2>::reg();
    OverIdentity<float, 1>::reg();
    OverIdentity<float, 2>::reg();
    OverIdentity<float, 3>::reg();
    OverIdentity<float, 4>::reg();
    OverIdentity<double, 1>::reg();
    OverIdentity<double, 2>::reg();
    OverIdentity<double, 3>::reg();
    OverIdentity<double, 4>::reg();
    OverIdentity<float, 2, int>::reg();       // 32-bit lattice coordinates
    OverIdentity<double, 3, int>::reg();
    OverIdentity<double, 2, float>::reg();    // floating lattice coordinates narrower than the coordinate scalar
    OverIdentity<float, 1, double>::reg();
    OverArray<float, 1, float>::reg();
    OverArray<float, 2, double>::reg();
    OverArray<float, 3, float>::reg();
    OverArray<float, 4, double>::reg();
    OverArray<double, 1, double>::reg();
    OverArray<double, 2, float>::reg();
    OverArray<double, 3, double>::reg();
    OverArray<double, 4, float>::reg();
}
}   // namespace
VF_MAIN(register_all)
