// C03: linear<B> returns the N-linear interpolant of the 2^N surrounding lattice
// values (weights = products of per-axis fractional distances), up to rounding;
// exact at lattice points; never outside the corner range by more than rounding.
// Oracle: binary128 evaluation of the interpolation formula over the stored lattice
// values (converted to the coordinate precision as the library specifies) with a
// forward error bound derived from the operation count.
#include "common.hpp"
#include "cov.hpp"
#include "ref.hpp"

#include <cfloat>
#include <cmath>

#ifndef VF_GROUP
#define VF_GROUP 0
#endif

namespace {
using namespace vf;
typedef __float128 q128;

struct Case {
    std::vector<uint64_t> ext;
    uint64_t vseed = 0;                          // stored values are a pure function of (vseed, flat index, component)
    std::vector<std::vector<uint64_t>> xbits;    // coordinates (bit patterns of R)
    json to_json() const { return json{{"extents", ext}, {"value_seed", vseed}, {"x_bits", xbits}}; }
    static Case from_json(const json & j)
    {
        Case c;
        c.ext = j.at("extents").get<std::vector<uint64_t>>();
        c.vseed = j.at("value_seed");
        c.xbits = j.at("x_bits").get<std::vector<std::vector<uint64_t>>>();
        return c;
    }
};

template <class R>
R from_bits(uint64_t b)
{
    R r;
    if constexpr (sizeof(R) == 4) {
        uint32_t u = uint32_t(b);
        std::memcpy(&r, &u, 4);
    } else {
        std::memcpy(&r, &b, 8);
    }
    return r;
}
template <class R>
uint64_t to_bits(R r)
{
    if constexpr (sizeof(R) == 4) {
        uint32_t u;
        std::memcpy(&u, &r, 4);
        return u;
    } else {
        uint64_t u;
        std::memcpy(&u, &r, 8);
        return u;
    }
}

// stored value for (seed, index): arbitrary finite bit patterns, class-biased, |v| <= cap
template <class T>
T stored_value(uint64_t seed, uint64_t idx, ld cap)
{
    uint64_t h = mix(seed, idx * 0x9E3779B97F4A7C15ULL + 12345);
    unsigned cls = h % 10;
    uint64_t r = mix(h, 99);
    T v;
    switch (cls) {
        case 0: v = T(0) * ((r & 1) ? T(-1) : T(1)); break;                                   // +-0
        case 1: v = from_bits<T>(r & (sizeof(T) == 4 ? 0x807FFFFFULL : 0x800FFFFFFFFFFFFFULL)); break;   // subnormal
        case 2: v = T(int64_t(r % 2049) - 1024); break;                                      // small integers
        case 3: v = T(ld(cap) * (ld(r % 1000 + 1) / 1000.0L)) * ((r >> 20 & 1) ? T(-1) : T(1)); break;   // huge
        case 4: v = std::numeric_limits<T>::min() * T(1 + r % 7) * ((r >> 20 & 1) ? T(-1) : T(1)); break;  // tiny normal
        default: {
            v = from_bits<T>(r);                                                             // any bit pattern
            if (!std::isfinite(v)) {
                v = T(ld(int64_t(r % 4001) - 2000) / 16.0L);
            }
        }
    }
    if (std::fabs(ld(v)) > cap) {
        v = T(std::copysign(cap * (ld(r % 997 + 1) / 1000.0L), ld(v)));
    }
    return v;
}

// max_exp2: coordinates beyond the grid (clamp beneath) stay below 2^max_exp2 so that the conversion to the
// lattice index type inside the interpolator is defined
template <class R>
rc::Gen<uint64_t> gen_x(uint64_t ext, bool clamped, int max_exp2)
{
    // cell index + fraction; fraction from {0, ulp, 2^-k, 1/2, 1-ulp, random}
    return rc::gen::map(
        rc::gen::tuple(in_range<unsigned>(0, 9), in_range<uint64_t>(0, ext - 1), in_range<unsigned>(0, 7), in_range<unsigned>(1, 30), rc::gen::arbitrary<uint32_t>()),
        [ext, clamped, max_exp2](std::tuple<unsigned, uint64_t, unsigned, unsigned, uint32_t> t) {
            uint64_t cell = std::get<1>(t);
            if (std::get<0>(t) < 3) {
                cell = ext >= 2 ? ext - 2 : 0;   // the last cell
            }
            R frac;
            switch (std::get<2>(t)) {
                case 0: frac = 0; break;
                case 1: frac = std::numeric_limits<R>::epsilon(); break;
                case 2: frac = std::ldexp(R(1), -int(std::get<3>(t))); break;
                case 3: frac = R(0.5); break;
                case 4: frac = R(1) - std::numeric_limits<R>::epsilon() / 2; break;
                case 5: frac = std::numeric_limits<R>::denorm_min(); break;
                default: frac = R(std::get<4>(t)) / R(4294967296.0);
            }
            R x = R(cell) + frac;
            if (clamped) {
                // any x >= 0: sometimes far beyond the grid (up to 2^62)
                if (std::get<0>(t) == 9) {
                    x = std::ldexp(R(1) + frac, std::min(int(std::get<3>(t)) * 2, max_exp2 - 1));
                } else if (std::get<0>(t) == 8) {
                    x = R(ext - 1) + frac * R(3);
                }
            } else {
                R top = std::nextafter(R(ext - 1), R(0));
                if (!(x < R(ext - 1))) {
                    x = top;
                }
            }
            return to_bits<R>(x);
        }
    );
}

template <class R, class T, size_t N, size_t M, bool CLAMP, class I = std::size_t>
struct Lin {
    using SB = cb::strided<cv::vector_d<I, N>, cb::array<cv::vector_d<T, M>>>;
    using Inner = std::conditional_t<CLAMP, cb::clamp<SB>, SB>;
    using B = cb::linear<Inner, cv::vector_d<R, N>>;
    static std::string name()
    {
        return std::string("linear/") + (CLAMP ? "clamp<strided>" : "strided") + "/N=" + std::to_string(N) + "/M=" + std::to_string(M) + "/R=" + tname<R>() + "/T=" + tname<T>() + (std::is_same_v<I, std::size_t> ? "" : std::string("/I=") + tname<I>());
    }
    static constexpr ld uR = sizeof(R) == 4 ? 0x1p-24L : 0x1p-53L;
    static constexpr ld uT = sizeof(T) == 4 ? 0x1p-24L : 0x1p-53L;
    static ld cap()
    {
        ld c = std::ldexp(ld(std::numeric_limits<R>::max()), -int(N + 2));
        return std::min(c, ld(std::numeric_limits<T>::max()) / 4);
    }

    static Verdict run(const Case & c)
    {
        typename SB::configuration_t e;
        uint64_t cells = 1;
        for (size_t k = 0; k < N; ++k) {
            e[k] = c.ext[k];
            cells *= c.ext[k];
        }
        // model lattice (row-major) and the library field with the same contents
        std::vector<T> lat(cells * M);
        covfie::field<SB> s(pack(e));
        {
            typename covfie::field<SB>::view_t sv(s);
            for (uint64_t r = 0; r < cells; ++r) {
                typename covfie::field<SB>::coordinate_t t;
                uint64_t qd = r;
                for (size_t k = N; k-- > 0;) {
                    t[k] = I(qd % c.ext[k]);
                    qd /= c.ext[k];
                }
                auto & cell = sv.at(t);
                for (size_t j = 0; j < M; ++j) {
                    lat[r * M + j] = stored_value<T>(c.vseed, r * M + j, cap());
                    cell[j] = lat[r * M + j];
                }
            }
        }
        std::optional<covfie::field<B>> fo;
        if constexpr (CLAMP) {
            typename Inner::configuration_t cc;
            for (size_t k = 0; k < N; ++k) {
                cc.min[k] = I(0);
                cc.max[k] = I(c.ext[k] - 1);
            }
            fo.emplace(pack(std::monostate{}, cc, typename SB::owning_data_t(s.backend())));
        } else {
            fo.emplace(pack(std::monostate{}, typename SB::owning_data_t(s.backend())));
        }
        typename covfie::field<B>::view_t v(*fo);

        // the storage beneath the interpolator, as the view sees it (for rewriting cells between two lookups)
        const auto & storage = [&]() -> const typename SB::owning_data_t & {
            if constexpr (CLAMP) {
                return fo->backend().get_backend().get_backend();
            } else {
                return fo->backend().get_backend();
            }
        }();
        typename SB::non_owning_data_t raw(storage);
        uint64_t base_rank = 0;
        auto one = [&](const std::vector<uint64_t> & xb, bool second) -> Verdict {
            typename covfie::field<B>::coordinate_t x;
            uint64_t base[N];
            q128 a[N];
            bool lattice = true;
            for (size_t k = 0; k < N; ++k) {
                x[k] = from_bits<R>(xb[k]);
                if (!(x[k] >= 0) || (!CLAMP && !(x[k] < R(c.ext[k] - 1)) && c.ext[k] > 1) || (!CLAMP && c.ext[k] == 1)) {
                    return std::string("bad case: coordinate outside the documented domain");
                }
                ld fl = std::floor(ld(x[k]));
                base[k] = uint64_t(fl);
                a[k] = q128(x[k]) - q128(fl);
                lattice = lattice && a[k] == 0;
            }
            auto got = v.at(x);
            digest(name(), &got, sizeof got);
            // exact interpolant, sum of |w||v|, corner range
            for (size_t j = 0; j < M; ++j) {
                q128 exact = 0, mag = 0;
                ld vmin = INFINITY, vmax = -INFINITY;
                for (uint64_t n = 0; n < (uint64_t(1) << N); ++n) {
                    q128 w = 1;
                    uint64_t rank = 0;
                    for (size_t k = 0; k < N; ++k) {
                        // the specialised branches use bit (N-1-k) for axis k, the generic branch bit k:
                        // the interpolant is symmetric in that choice, any bijection of corners works here
                        bool up = (n >> k) & 1;
                        w *= up ? a[k] : (q128(1) - a[k]);
                        uint64_t idx = base[k] + (up ? 1 : 0);
                        if (CLAMP) {
                            idx = std::min<uint64_t>(idx, c.ext[k] - 1);
                        } else if (idx >= c.ext[k]) {
                            return std::string("bad case: neighbour outside the grid");
                        }
                        rank = rank * c.ext[k] + idx;
                    }
                    R vr = static_cast<R>(lat[rank * M + j]);   // conversion to the coordinate precision
                    exact += w * q128(vr);
                    mag += w * (vr < 0 ? -q128(vr) : q128(vr));
                    vmin = std::min(vmin, ld(vr));
                    vmax = std::max(vmax, ld(vr));
                }
                ld ex = ld(exact), mg = ld(mag);
                ld vabs = std::max<ld>(1, std::max(std::fabs(vmin), std::fabs(vmax)));   // an underflowing weight product is off by <= denorm_min, then scaled by a corner value
                ld bound = (2 * (2 * ld(N) + ld(uint64_t(1) << N) + 3) * uR + (ld(uint64_t(1) << N) + 1) * uT) * mg + uT * std::fabs(ex) +
                           (ld(uint64_t(2) << N) + 2 * N + 4) * ld(std::numeric_limits<R>::denorm_min()) * vabs + (ld(uint64_t(1) << N) + 2) * ld(std::numeric_limits<T>::denorm_min());
                ld g = ld(got[j]);
                if (!(std::fabs(g - ex) <= bound)) {
                    std::ostringstream os;
                    os << "component " << j << ": got " << ld_str(g) << ", N-linear interpolant " << ld_str(ex) << ", |difference| " << ld_str(std::fabs(g - ex)) << " exceeds the rounding bound " << ld_str(bound);
                    return os.str();
                }
                if (!(g >= vmin - bound && g <= vmax + bound)) {
                    return "component " + std::to_string(j) + ": got " + ld_str(g) + " outside the range [" + ld_str(vmin) + "," + ld_str(vmax) + "] of the surrounding lattice values";
                }
                if (lattice) {
                    // at a lattice point: the stored value converted to R and back to T (numerically: -0 == +0)
                    uint64_t rank = 0;
                    for (size_t k = 0; k < N; ++k) {
                        rank = rank * c.ext[k] + (CLAMP ? std::min<uint64_t>(base[k], c.ext[k] - 1) : base[k]);
                    }
                    T want = static_cast<T>(static_cast<R>(lat[rank * M + j]));
                    if (!(got[j] == want)) {
                        return "component " + std::to_string(j) + " at a lattice point: got " + ld_str(g) + ", stored value is " + ld_str(want);
                    }
                }
            }
            Hasher h;
            h.vec(c.ext).pod(c.vseed).vec(xb);
            if (lattice) {
                label("lattice point");
            }
            bool beyond = false, last = false;
            for (size_t k = 0; k < N; ++k) {
                beyond = beyond || base[k] + 1 >= c.ext[k];
                last = last || base[k] + 2 == c.ext[k];
            }
            if (beyond) {
                label("at or beyond the upper boundary (clamped neighbour)");
            }
            if (last) {
                label("in the last cell of some axis");
            }
            if (N != M) {
                label("N != M");
            }
            // data are arbitrary bit patterns (never affine in the coordinates); trivial = lattice point
            record(name(), !lattice, h.h, [&] {
                json j = json{{"extents", c.ext}, {"value_seed", c.vseed}, {"x_bits", std::vector<std::vector<uint64_t>>{xb}}};
                std::vector<std::string> xs;
                for (size_t k = 0; k < N; ++k) {
                    xs.push_back(ld_str(x[k]));
                }
                j["x"] = xs;
                return j;
            });
            base_rank = 0;
            for (size_t k = 0; k < N; ++k) {
                base_rank = base_rank * c.ext[k] + (CLAMP ? std::min<uint64_t>(base[k], c.ext[k] - 1) : base[k]);
            }
            if (second) {
                label("second lookup at the same coordinate after the cell's lower corner was rewritten");
            }
            return std::nullopt;
        };
        for (auto & xb : c.xbits) {
            if (auto b = one(xb, false)) {
                return b;
            }
            // a view shows the field as it is now: rewrite the lower corner of the cell just used (through the storage
            // layer's own view) and look the same coordinate up again through the same interpolating view
            {
                typename SB::contravariant_input_t::vector_t t;
                uint64_t qd = base_rank;
                for (size_t k = N; k-- > 0;) {
                    t[k] = I(qd % c.ext[k]);
                    qd /= c.ext[k];
                }
                auto & cell = raw.at(t);
                for (size_t j = 0; j < M; ++j) {
                    lat[base_rank * M + j] = stored_value<T>(c.vseed ^ 0x9e3779b97f4a7c15ULL, base_rank * M + j + 17, cap());
                    cell[j] = lat[base_rank * M + j];
                }
            }
            if (auto b = one(xb, true)) {
                return b;
            }
        }
        return std::nullopt;
    }
    static rc::Gen<Case> gen()
    {
        // extents 2..9 under a cell cap (N = 5: at most 4 per axis on average)
        const uint64_t mx = N <= 3 ? 9 : N == 4 ? 6 : 4;
        return rc::gen::mapcat(rc::gen::pair(rc::gen::container<std::vector<uint64_t>>(N, in_range<uint64_t>(2, mx)), rc::gen::arbitrary<uint64_t>()), [](std::pair<std::vector<uint64_t>, uint64_t> p) {
            auto ext = p.first;
            auto seed = p.second;
            auto coord = rc::gen::exec([ext] {
                std::vector<uint64_t> x;
                for (auto e : ext) {
                    x.push_back(*gen_x<R>(e, CLAMP, std::is_same_v<I, std::size_t> ? 61 : std::is_same_v<I, int> ? 30 : 31));
                }
                return x;
            });
            return rc::gen::map(rc::gen::container<std::vector<std::vector<uint64_t>>>(6, coord), [ext, seed](std::vector<std::vector<uint64_t>> xs) { return Case{ext, seed, xs}; });
        });
    }
    static void campaign()
    {
        rc_campaign<Case>(name(), tier(350, 35000), 100, gen(), run);
    }
    static void reg()
    {
        add_inst(name(), campaign, [](const json & j) { return run(Case::from_json(j)); });
    }
};

// (R,T) rotates with (N + 2M) mod 4 so that every combination occurs for N == M and for N != M
template <size_t N, size_t M, bool CLAMP>
void reg_nm()
{
    constexpr unsigned k = (N + 2 * M) % 4;
    using R = std::conditional_t<(k & 1) != 0, double, float>;
    using T = std::conditional_t<(k & 2) != 0, double, float>;
    Lin<R, T, N, M, CLAMP>::reg();
}
template <size_t N>
void reg_n()
{
    reg_nm<N, 1, false>();
    reg_nm<N, 2, false>();
    reg_nm<N, 3, false>();
    reg_nm<N, 4, false>();
    reg_nm<N, 1, true>();
    reg_nm<N, 2, true>();
    reg_nm<N, 3, true>();
    reg_nm<N, 4, true>();
}

void register_all()
{
#if VF_GROUP == 0
    reg_n<1>();
    reg_n<2>();
    // other lattice index scalars beneath the interpolator
    Lin<float, float, 2, 2, false, unsigned>::reg();
    Lin<double, double, 2, 1, true, int>::reg();
    Lin<float, double, 1, 3, false, int>::reg();
#elif VF_GROUP == 1
    reg_n<3>();
    Lin<double, float, 3, 3, false, unsigned>::reg();
    Lin<float, float, 3, 1, true, int>::reg();
#elif VF_GROUP == 2
    reg_n<4>();
#elif VF_GROUP == 3
    reg_n<5>();
#endif
}
}   // namespace
VF_MAIN(register_all)
