// Whole-object operations on DIFFERENT objects running at the same time (C05: conversions between storage orders;
// C06: dump and load). The properties quantify over every field; what another thread does with its own fields and its own
// streams must not matter. Built with -fsanitize=thread. Oracle: ThreadSanitizer reports nothing (hidden shared state such
// as a function-local static table or buffer is a data race) and every thread obtains exactly the result of the sequential
// execution of the same operation (values / bytes).
// VERIF_TSAN_OPS=conv registers the conversion workloads, =io the dump / load workloads.
#include "common.hpp"
#include "cov.hpp"

#include <atomic>
#include <sstream>
#include <thread>

namespace {
using namespace vf;

struct Case {
    std::vector<std::vector<uint64_t>> ext;   // per thread: extents of its own field
    uint64_t seed = 0;
    json to_json() const { return json{{"extents_per_thread", ext}, {"seed", seed}}; }
    static Case from_json(const json & j)
    {
        Case c;
        c.ext = j.at("extents_per_thread").get<std::vector<std::vector<uint64_t>>>();
        c.seed = j.at("seed");
        return c;
    }
};

template <size_t N>
rc::Gen<Case> gen_case(uint64_t mx)
{
    return rc::gen::map(rc::gen::tuple(in_range<unsigned>(2, 8), rc::gen::container<std::vector<uint64_t>>(8 * N, in_range<uint64_t>(1, mx)), rc::gen::arbitrary<uint64_t>()), [](std::tuple<unsigned, std::vector<uint64_t>, uint64_t> t) {
        Case c;
        for (unsigned k = 0; k < std::get<0>(t); ++k) {
            c.ext.emplace_back(std::get<1>(t).begin() + k * N, std::get<1>(t).begin() + (k + 1) * N);
        }
        c.seed = std::get<2>(t);
        return c;
    });
}

template <class S, size_t N>
covfie::field<S> make_source(const std::vector<uint64_t> & ext, uint64_t seed)
{
    using S0 = cb::strided<cv::vector_d<std::size_t, N>, typename S::backend_t>;
    typename S0::configuration_t e;
    uint64_t cells = 1;
    for (size_t k = 0; k < N; ++k) {
        e[k] = ext[k];
        cells *= ext[k];
    }
    covfie::field<S0> s0(pack(e));
    typename covfie::field<S0>::view_t v(s0);
    for (uint64_t r = 0; r < cells; ++r) {
        typename covfie::field<S0>::coordinate_t x;
        uint64_t q = r;
        for (size_t k = N; k-- > 0;) {
            x[k] = q % ext[k];
            q /= ext[k];
        }
        auto & cell = v.at(x);
        for (size_t j = 0; j < cell.size(); ++j) {
            cell[j] = float(double((mix(seed, r * 4 + j) >> 40)) / 64.0);
        }
    }
    if constexpr (std::is_same_v<S, S0>) {
        return s0;
    } else {
        return covfie::field<S>(s0);
    }
}

template <class F, size_t N>
uint64_t digest_of(const F & f, const std::vector<uint64_t> & ext)
{
    typename F::view_t v(f);
    uint64_t h = 1469598103934665603ULL, cells = 1;
    for (auto e : ext) {
        cells *= e;
    }
    for (uint64_t r = 0; r < cells; ++r) {
        typename F::coordinate_t x;
        uint64_t q = r;
        for (size_t k = N; k-- > 0;) {
            x[k] = q % ext[k];
            q /= ext[k];
        }
        auto cell = v.at(x);
        for (size_t j = 0; j < cell.size(); ++j) {
            float a = cell[j];
            h = fnv(&a, 4, h);
        }
    }
    return h;
}

template <class Fn>
void run_together(unsigned T, Fn && fn)
{
    std::atomic<unsigned> go{0};
    std::vector<std::thread> th;
    for (unsigned t = 0; t < T; ++t) {
        th.emplace_back([&, t] {
            go.fetch_add(1);
            while (go.load() < T) {
            }
            fn(t);
        });
    }
    for (auto & x : th) {
        x.join();
    }
}

// ---------------------------------------------------------------- C05: concurrent conversions
template <Lay LS, Lay LD, size_t N>
struct Conv {
    using IV = cv::vector_d<std::size_t, N>;
    using A = cb::array<cv::vector_d<float, 2>>;
    using S = layout_t<LS, IV, A>;
    using D = layout_t<LD, IV, A>;
    static std::string name() { return std::string("concurrent conversions/") + lay_name(LS) + "->" + lay_name(LD) + "/N=" + std::to_string(N); }
    static Verdict run(const Case & c)
    {
        if ((LS == Lay::morton_bmi2 || LD == Lay::morton_bmi2) && !have_bmi2()) {
            return std::nullopt;
        }
        const unsigned T = unsigned(c.ext.size());
        std::vector<covfie::field<S>> src;
        std::vector<uint64_t> want(T), got(T), back(T);
        for (unsigned t = 0; t < T; ++t) {
            src.push_back(make_source<S, N>(c.ext[t], c.seed + t));
            want[t] = digest_of<covfie::field<S>, N>(src[t], c.ext[t]);
            covfie::field<D> d(src[t]);   // sequential reference (also warms nothing up that the threads could share legitimately)
            if (digest_of<covfie::field<D>, N>(d, c.ext[t]) != want[t]) {
                return std::string("sequential conversion does not preserve the values (C05 proper)");
            }
        }
        run_together(T, [&](unsigned t) {
            covfie::field<D> d(src[t]);
            got[t] = digest_of<covfie::field<D>, N>(d, c.ext[t]);
            covfie::field<S> b(d);
            back[t] = digest_of<covfie::field<S>, N>(b, c.ext[t]);
        });
        Hasher h;
        h.pod(c.seed);
        bool differ = false;
        for (auto & e : c.ext) {
            h.vec(e);
            differ = differ || e != c.ext[0];
        }
        record(name(), differ, h.h, [&] { return c.to_json(); });
        for (unsigned t = 0; t < T; ++t) {
            if (got[t] != want[t] || back[t] != want[t]) {
                return "thread " + std::to_string(t) + ": a conversion running at the same time as other threads' conversions of their own fields produced different values than the sequential conversion";
            }
        }
        return std::nullopt;
    }
    static void campaign() { rc_campaign<Case>(name(), tier(40, 1500), 100, gen_case<N>(N == 2 ? 40 : N == 3 ? 12 : 6), run); }
    static void reg()
    {
        add_inst(name(), campaign, [](const json & j) { return run(Case::from_json(j)); });
    }
};

// ---------------------------------------------------------------- C06: concurrent dump / load
template <Lay L, size_t N, bool INTERP>
struct Io {
    using IV = cv::vector_d<std::size_t, N>;
    using A = cb::array<cv::vector_d<float, 2>>;
    using S = layout_t<L, IV, A>;
    using B = std::conditional_t<INTERP, cb::affine<cb::nearest_neighbour<S, cv::vector_d<float, N>>>, S>;
    static std::string name() { return std::string("concurrent dump+load/") + (INTERP ? "affine<nearest<" : "") + lay_name(L) + "/N=" + std::to_string(N); }
    static covfie::field<B> make(const std::vector<uint64_t> & ext, uint64_t seed)
    {
        covfie::field<S> s = make_source<S, N>(ext, seed);
        if constexpr (INTERP) {
            auto m = typename B::configuration_t(covfie::algebra::matrix<N, N + 1, float>::identity());
            m(0, N) = float(seed % 7);
            return covfie::field<B>(pack(m, std::monostate{}, typename S::owning_data_t(s.backend())));
        } else {
            return s;
        }
    }
    static Verdict run(const Case & c)
    {
        if (L == Lay::morton_bmi2 && !have_bmi2()) {
            return std::nullopt;
        }
        const unsigned T = unsigned(c.ext.size());
        std::vector<covfie::field<B>> f;
        std::vector<std::string> d0(T), d1(T), d2(T);
        for (unsigned t = 0; t < T; ++t) {
            f.push_back(make(c.ext[t], c.seed + t));
            std::ostringstream os;
            f[t].dump(os);
            d0[t] = os.str();
        }
        run_together(T, [&](unsigned t) {
            std::ostringstream os;
            f[t].dump(os);
            d1[t] = os.str();
            std::istringstream is(d0[t]);
            covfie::field<B> g(is);
            std::ostringstream os2;
            g.dump(os2);
            d2[t] = os2.str();
        });
        Hasher h;
        h.pod(c.seed);
        bool differ = false;
        for (auto & e : c.ext) {
            h.vec(e);
            differ = differ || e != c.ext[0];
        }
        record(name(), differ, h.h, [&] { return c.to_json(); });
        for (unsigned t = 0; t < T; ++t) {
            if (d1[t] != d0[t]) {
                return "thread " + std::to_string(t) + ": a dump running at the same time as other threads' dumps / loads of their own fields differs from the sequential dump";
            }
            if (d2[t] != d0[t]) {
                return "thread " + std::to_string(t) + ": a field loaded while other threads loaded their own fields from their own streams does not dump to the bytes it was loaded from";
            }
        }
        return std::nullopt;
    }
    static void campaign() { rc_campaign<Case>(name(), tier(40, 1500), 100, gen_case<N>(N == 1 ? 3000 : N == 2 ? 60 : 14), run); }
    static void reg()
    {
        add_inst(name(), campaign, [](const json & j) { return run(Case::from_json(j)); });
    }
};

void register_all()
{
    const char * w = getenv("VERIF_TSAN_OPS");
    const std::string which = w ? w : "conv";
    if (which == "conv") {
        Conv<Lay::strided, Lay::morton_port, 2>::reg();
        Conv<Lay::strided, Lay::morton_bmi2, 2>::reg();
        Conv<Lay::strided, Lay::hilbert, 2>::reg();
        Conv<Lay::morton_port, Lay::strided, 3>::reg();
        Conv<Lay::strided, Lay::morton_port, 3>::reg();
        Conv<Lay::hilbert, Lay::morton_port, 2>::reg();
        Conv<Lay::strided, Lay::strided, 4>::reg();
        Conv<Lay::strided, Lay::morton_bmi2, 4>::reg();
    } else {
        Io<Lay::strided, 1, false>::reg();
        Io<Lay::strided, 2, false>::reg();
        Io<Lay::strided, 3, true>::reg();
        Io<Lay::morton_port, 2, false>::reg();
        Io<Lay::morton_bmi2, 3, true>::reg();
        Io<Lay::hilbert, 2, true>::reg();
    }
}
}   // namespace
VF_MAIN(register_all)
