// C10: for every coordinate value whatsoever (NaN excluded) a clamped field queries
// its backend at the component-wise clamp of the coordinate to the configured box;
// with array storage and a box inside the extents no lookup leaves the field.
#include "common.hpp"
#include "cov.hpp"
#include "ref.hpp"

#include <cmath>
#include <limits>

namespace {
using namespace vf;

struct Case {
    std::vector<uint64_t> ext;                 // array-backed stacks
    std::vector<uint64_t> lo, hi;              // box, bit patterns of the coordinate scalar
    std::vector<std::vector<uint64_t>> xs;     // coordinates, bit patterns
    json to_json() const { return json{{"extents", ext}, {"lo_bits", lo}, {"hi_bits", hi}, {"x_bits", xs}}; }
    static Case from_json(const json & j)
    {
        Case c;
        c.ext = j.at("extents").get<std::vector<uint64_t>>();
        c.lo = j.at("lo_bits").get<std::vector<uint64_t>>();
        c.hi = j.at("hi_bits").get<std::vector<uint64_t>>();
        c.xs = j.at("x_bits").get<std::vector<std::vector<uint64_t>>>();
        return c;
    }
};

template <class X>
X from_bits(uint64_t b)
{
    X r;
    std::memcpy(&r, &b, sizeof(X));
    return r;
}
template <class X>
uint64_t to_bits(X r)
{
    uint64_t u = 0;
    std::memcpy(&u, &r, sizeof(X));
    return u;
}
template <class X>
X step(X x, int j)
{
    if constexpr (std::is_floating_point_v<X>) {
        for (; j > 0; --j) {
            x = std::nextafter(x, std::numeric_limits<X>::infinity());
        }
        for (; j < 0; ++j) {
            x = std::nextafter(x, -std::numeric_limits<X>::infinity());
        }
        return x;
    } else {
        // saturating +-1 steps
        for (; j > 0; --j) {
            if (x < std::numeric_limits<X>::max()) {
                ++x;
            }
        }
        for (; j < 0; ++j) {
            if (x > std::numeric_limits<X>::lowest()) {
                --x;
            }
        }
        return x;
    }
}
template <class X>
std::string show(X x)
{
    if constexpr (std::is_floating_point_v<X>) {
        return ld_str(x);
    } else {
        return std::to_string(x);
    }
}

// a value of X from the whole type: extremes, zeros, infinities, subnormals, around given anchors, random bits
template <class X>
rc::Gen<uint64_t> gen_any(std::vector<X> anchors)
{
    return rc::gen::map(rc::gen::tuple(in_range<unsigned>(0, 14), rc::gen::arbitrary<uint64_t>(), in_range<int>(-2, 2)), [anchors](std::tuple<unsigned, uint64_t, int> t) {
        uint64_t r = std::get<1>(t);
        X v;
        switch (std::get<0>(t)) {
            case 12:
            case 13:
                if constexpr (std::is_floating_point_v<X>) {
                    // tiny magnitudes (products of two of them underflow), either sign, near an anchor's scale or not
                    v = std::ldexp(X(1 + r % 3), -int(30 + (r >> 8) % (sizeof(X) == 4 ? 118 : 1040))) * ((r & 4) ? X(-1) : X(1));
                } else {
                    // a value congruent to (a neighbour of) an anchor modulo 2^8, 2^16 or 2^32: equal to it once truncated
                    using U = std::make_unsigned_t<X>;
                    const unsigned shifts[] = {8, 16, 32};
                    unsigned sh = shifts[(r >> 3) % 3];
                    U base = U(step(anchors[r % anchors.size()], std::get<2>(t)));
                    if (sh < 8 * sizeof(X)) {
                        base = U(base + U(U(1 + (r >> 8) % 5) << sh));
                    }
                    v = X(base);
                }
                break;
            case 0: v = std::numeric_limits<X>::lowest(); break;
            case 1: v = std::numeric_limits<X>::max(); break;
            case 2: v = X(0); break;
            case 3:
                if constexpr (std::is_floating_point_v<X>) {
                    v = (r & 1) ? std::numeric_limits<X>::infinity() : -std::numeric_limits<X>::infinity();
                } else {
                    v = step(std::numeric_limits<X>::max(), -int(r % 3));
                }
                break;
            case 4:
                if constexpr (std::is_floating_point_v<X>) {
                    v = (r & 1) ? -X(0) : std::numeric_limits<X>::denorm_min() * X(1 + r % 5);
                } else {
                    v = step(std::numeric_limits<X>::lowest(), int(r % 3));
                }
                break;
            case 5:
            case 6:
            case 7:
            case 8: v = step(anchors[r % anchors.size()], std::get<2>(t)); break;   // at and adjacent to a bound
            default:
                v = from_bits<X>(r);
                if constexpr (std::is_floating_point_v<X>) {
                    if (std::isnan(v)) {
                        v = X(int64_t(r % 2001) - 1000) / X(8);
                    }
                }
        }
        return to_bits<X>(v);
    });
}

// the same clamp field through three public construction paths: 0 = parameter pack (configuration, backend
// configuration); 1 = owning data built with (configuration, backend owning data &&) and handed over as a pack;
// 2 = dumped and loaded again. The box a lookup is clamped to must not depend on the path.
template <class B>
covfie::field<B> make_clamp_over_identity(const typename B::configuration_t & cfg, unsigned path)
{
    if (path == 1) {
        typename B::owning_data_t od(cfg, typename B::backend_t::owning_data_t{});
        return covfie::field<B>(pack(std::move(od)));
    }
    covfie::field<B> f(pack(cfg, std::monostate{}));
    if (path == 2) {
        std::stringstream ss;
        f.dump(ss);
        return covfie::field<B>(ss);
    }
    return f;
}
inline unsigned path_of(const Case & c)
{
    uint64_t h = c.xs.size();
    for (auto w : c.lo) {
        h = h * 1099511628211ULL + w;
    }
    for (auto w : c.hi) {
        h = h * 1099511628211ULL + w;
    }
    return unsigned((h >> 17) % 3);
}
static const char * PATH_LABEL[] = {"built from a parameter pack", "built through owning_data_t(configuration, backend owning data &&)", "dumped and loaded"};

template <class X>
X ref_clamp(X x, X lo, X hi)
{
    return x < lo ? lo : (x > hi ? hi : x);
}

// ------------------------------------------------------------ clamp<identity<X^N>>
template <class X, size_t N>
struct OverIdentity {
    using B = cb::clamp<cb::identity<cv::vector_d<X, N>>>;
    static std::string name() { return std::string("clamp<identity>/X=") + tname<X>() + "/N=" + std::to_string(N); }
    static Verdict run(const Case & c)
    {
        typename B::configuration_t cfg;
        for (size_t k = 0; k < N; ++k) {
            cfg.min[k] = from_bits<X>(c.lo[k]);
            cfg.max[k] = from_bits<X>(c.hi[k]);
            if (!(cfg.min[k] <= cfg.max[k])) {
                return std::string("bad case: box with lo > hi");
            }
        }
        covfie::field<B> f = make_clamp_over_identity<B>(cfg, path_of(c));
        label(PATH_LABEL[path_of(c)]);
        typename covfie::field<B>::view_t v(f);
        for (auto & xb : c.xs) {
            typename covfie::field<B>::coordinate_t x;
            bool outside = false;
            for (size_t k = 0; k < N; ++k) {
                x[k] = from_bits<X>(xb[k]);
                outside = outside || x[k] < cfg.min[k] || x[k] > cfg.max[k];
            }
            auto got = v.at(x);
            Hasher h;
            h.vec(c.lo).vec(c.hi).vec(xb);
            record(name(), outside, h.h, [&] { return json{{"lo_bits", c.lo}, {"hi_bits", c.hi}, {"x_bits", std::vector<std::vector<uint64_t>>{xb}}, {"extents", c.ext}}; });
            for (size_t k = 0; k < N; ++k) {
                X want = ref_clamp(x[k], cfg.min[k], cfg.max[k]);
                if (!(got[k] == want)) {
                    return "component " + std::to_string(k) + ": x = " + show(x[k]) + " box [" + show(cfg.min[k]) + "," + show(cfg.max[k]) + "] -> backend queried at " + show(got[k]) + ", component-wise clamp is " + show(want);
                }
            }
        }
        return std::nullopt;
    }
    static rc::Gen<Case> gen()
    {
        auto bound = gen_any<X>({X(0), X(1), X(5)});
        return rc::gen::mapcat(rc::gen::container<std::vector<std::pair<uint64_t, uint64_t>>>(N, rc::gen::pair(bound, bound)), [](std::vector<std::pair<uint64_t, uint64_t>> bs) {
            Case c;
            std::vector<X> anchors;
            for (auto & b : bs) {
                X a = from_bits<X>(b.first), z = from_bits<X>(b.second);
                if (z < a) {
                    std::swap(a, z);
                }
                c.lo.push_back(to_bits<X>(a));
                c.hi.push_back(to_bits<X>(z));
                anchors.push_back(a);
                anchors.push_back(z);
            }
            return rc::gen::map(rc::gen::container<std::vector<std::vector<uint64_t>>>(6, rc::gen::container<std::vector<uint64_t>>(N, gen_any<X>(anchors))), [c](std::vector<std::vector<uint64_t>> xs) {
                Case d = c;
                d.xs = xs;
                return d;
            });
        });
    }
    static void campaign() { rc_campaign<Case>(name(), tier(1200, 120000), 100, gen(), run); }
    static void reg()
    {
        add_inst(name(), campaign, [](const json & j) { return run(Case::from_json(j)); });
    }
};

// ------------------------------------------------------------ clamp<identity<long double^N>>
// "floating coordinate types" includes the widest one. A long double does not fit one 64-bit word: two words per value.
inline void ld_put(std::vector<uint64_t> & v, long double x)
{
    uint64_t w[2] = {0, 0};
    std::memcpy(w, &x, 10);
    v.push_back(w[0]);
    v.push_back(w[1]);
}
inline long double ld_get(const std::vector<uint64_t> & v, size_t k)
{
    long double x = 0;
    uint64_t w[2] = {v[2 * k], v[2 * k + 1]};
    std::memcpy(&x, w, 10);
    return x;
}
inline rc::Gen<long double> gen_ld(std::vector<long double> anchors)
{
    using X = long double;
    return rc::gen::map(rc::gen::tuple(in_range<unsigned>(0, 13), rc::gen::arbitrary<uint64_t>(), in_range<int>(-2, 2)), [anchors](std::tuple<unsigned, uint64_t, int> t) {
        uint64_t r = std::get<1>(t);
        X v;
        switch (std::get<0>(t)) {
            case 0: v = std::numeric_limits<X>::lowest(); break;
            case 1: v = std::numeric_limits<X>::max(); break;
            case 2: v = (r & 1) ? -X(0) : X(0); break;
            case 3: v = (r & 1) ? std::numeric_limits<X>::infinity() : -std::numeric_limits<X>::infinity(); break;
            case 4: v = std::numeric_limits<X>::denorm_min() * X(1 + r % 5); break;
            case 5:
            case 6:
            case 7:
            case 8: v = step(anchors[r % anchors.size()], std::get<2>(t)); break;
            case 9: v = std::ldexp(X(int64_t(r >> 1) | 1), int(r % 64) - 62) * ((r & 1) ? -1 : 1); break;            // 63 significant bits: not a double
            case 10: v = std::ldexp(X(1) + X(r % 1000) / 1024, 1024 + int(r % 15000)) * ((r & 1) ? -1 : 1); break;   // finite, beyond the range of double
            case 11: v = std::ldexp(X(1) + X(r % 1000) / 1024, -1080 - int(r % 15000)); break;                         // below the range of double
            default: {
                double d = from_bits<double>(r);
                v = std::isnan(d) ? X(int64_t(r % 2001) - 1000) / X(8) : X(d);
            }
        }
        return v;
    });
}
template <size_t N>
struct OverIdentityLD {
    using X = long double;
    using B = cb::clamp<cb::identity<cv::vector_d<X, N>>>;
    static std::string name() { return std::string("clamp<identity>/X=long double/N=") + std::to_string(N); }
    static Verdict run(const Case & c)
    {
        typename B::configuration_t cfg;
        for (size_t k = 0; k < N; ++k) {
            cfg.min[k] = ld_get(c.lo, k);
            cfg.max[k] = ld_get(c.hi, k);
            if (!(cfg.min[k] <= cfg.max[k])) {
                return std::string("bad case: box with lo > hi");
            }
        }
        covfie::field<B> f = make_clamp_over_identity<B>(cfg, path_of(c));
        label(PATH_LABEL[path_of(c)]);
        typename covfie::field<B>::view_t v(f);
        for (auto & xb : c.xs) {
            typename covfie::field<B>::coordinate_t x;
            bool outside = false;
            for (size_t k = 0; k < N; ++k) {
                x[k] = ld_get(xb, k);
                outside = outside || x[k] < cfg.min[k] || x[k] > cfg.max[k];
            }
            auto got = v.at(x);
            Hasher h;
            h.vec(c.lo).vec(c.hi).vec(xb);
            record(name(), outside, h.h, [&] { return json{{"lo_bits", c.lo}, {"hi_bits", c.hi}, {"x_bits", std::vector<std::vector<uint64_t>>{xb}}, {"extents", c.ext}}; });
            for (size_t k = 0; k < N; ++k) {
                X want = ref_clamp(x[k], cfg.min[k], cfg.max[k]);
                if (!(got[k] == want)) {
                    return "component " + std::to_string(k) + ": x = " + ld_str(x[k]) + " box [" + ld_str(cfg.min[k]) + "," + ld_str(cfg.max[k]) + "] -> backend queried at " + ld_str(got[k]) + ", component-wise clamp is " + ld_str(want);
                }
            }
        }
        return std::nullopt;
    }
    static rc::Gen<Case> gen()
    {
        auto bound = gen_ld({X(0), X(1), X(5)});
        return rc::gen::mapcat(rc::gen::container<std::vector<std::pair<X, X>>>(N, rc::gen::pair(bound, bound)), [](std::vector<std::pair<X, X>> bs) {
            Case c;
            std::vector<X> anchors;
            for (auto & b : bs) {
                X a = b.first, z = b.second;
                if (z < a) {
                    std::swap(a, z);
                }
                ld_put(c.lo, a);
                ld_put(c.hi, z);
                anchors.push_back(a);
                anchors.push_back(z);
            }
            return rc::gen::map(rc::gen::container<std::vector<std::vector<X>>>(6, rc::gen::container<std::vector<X>>(N, gen_ld(anchors))), [c](std::vector<std::vector<X>> xs) {
                Case d = c;
                for (auto & x : xs) {
                    std::vector<uint64_t> w;
                    for (X q : x) {
                        ld_put(w, q);
                    }
                    d.xs.push_back(w);
                }
                return d;
            });
        });
    }
    static void campaign() { rc_campaign<Case>(name(), tier(1200, 120000), 100, gen(), run); }
    static void reg()
    {
        add_inst(name(), campaign, [](const json & j) { return run(Case::from_json(j)); });
    }
};

// shared: row-major field holding rank+1
template <class SB, size_t N>
covfie::field<SB> make_ranked(const std::vector<uint64_t> & ext)
{
    typename SB::configuration_t e;
    uint64_t cells = 1;
    for (size_t k = 0; k < N; ++k) {
        e[k] = ext[k];
        cells *= ext[k];
    }
    covfie::field<SB> s(pack(e));
    typename covfie::field<SB>::view_t sv(s);
    for (uint64_t r = 0; r < cells; ++r) {
        typename covfie::field<SB>::coordinate_t t;
        uint64_t q = r;
        for (size_t k = N; k-- > 0;) {
            t[k] = typename covfie::field<SB>::coordinate_t::value_type(q % ext[k]);
            q /= ext[k];
        }
        sv.at(t)[0] = float(r + 1);
    }
    return s;
}

// ------------------------------------------------------------ clamp<strided<I^N, array<float1>>>
template <class I, size_t N>
struct OverArray {
    using SB = cb::strided<cv::vector_d<I, N>, cb::array<cv::float1>>;
    using B = cb::clamp<SB>;
    static std::string name() { return std::string("clamp<strided-array>/I=") + tname<I>() + "/N=" + std::to_string(N); }
    static Verdict run(const Case & c)
    {
        auto s = make_ranked<SB, N>(c.ext);
        typename B::configuration_t cfg;
        for (size_t k = 0; k < N; ++k) {
            cfg.min[k] = from_bits<I>(c.lo[k]);
            cfg.max[k] = from_bits<I>(c.hi[k]);
            if (!(cfg.min[k] <= cfg.max[k]) || cfg.min[k] < I(0) || uint64_t(cfg.max[k]) >= c.ext[k]) {
                return std::string("bad case: box not inside the extents");
            }
        }
        covfie::field<B> f(pack(cfg, typename SB::owning_data_t(s.backend())));
        typename covfie::field<B>::view_t v(f);
        for (auto & xb : c.xs) {
            typename covfie::field<B>::coordinate_t x;
            bool outside = false;
            uint64_t rank = 0;
            for (size_t k = 0; k < N; ++k) {
                x[k] = from_bits<I>(xb[k]);
                outside = outside || x[k] < cfg.min[k] || x[k] > cfg.max[k];
                rank = rank * c.ext[k] + uint64_t(ref_clamp(x[k], cfg.min[k], cfg.max[k]));
            }
            float got = v.at(x)[0];
            Hasher h;
            h.vec(c.ext).vec(c.lo).vec(c.hi).vec(xb);
            record(name(), outside, h.h, [&] { return json{{"lo_bits", c.lo}, {"hi_bits", c.hi}, {"x_bits", std::vector<std::vector<uint64_t>>{xb}}, {"extents", c.ext}}; });
            if (got != float(rank + 1)) {
                return "lookup returned the value of cell rank " + std::to_string(uint64_t(got) - 1) + ", the clamped coordinate is cell rank " + std::to_string(rank);
            }
        }
        return std::nullopt;
    }
    static rc::Gen<Case> gen()
    {
        const uint64_t mx = N <= 2 ? 20 : N == 3 ? 8 : 5;
        return rc::gen::mapcat(rc::gen::container<std::vector<uint64_t>>(N, in_range<uint64_t>(1, mx)), [](std::vector<uint64_t> ext) {
            return rc::gen::exec([ext] {
                Case c;
                c.ext = ext;
                std::vector<I> anchors;
                for (auto e : ext) {
                    uint64_t a = *in_range<uint64_t>(0, e - 1), z = *in_range<uint64_t>(0, e - 1);
                    if (z < a) {
                        std::swap(a, z);
                    }
                    if (*in_range<unsigned>(0, 3) == 0) {
                        a = 0;
                        z = e - 1;   // the whole grid
                    }
                    c.lo.push_back(to_bits<I>(I(a)));
                    c.hi.push_back(to_bits<I>(I(z)));
                    anchors.push_back(I(a));
                    anchors.push_back(I(z));
                }
                c.xs = *rc::gen::container<std::vector<std::vector<uint64_t>>>(6, rc::gen::container<std::vector<uint64_t>>(N, gen_any<I>(anchors)));
                return c;
            });
        });
    }
    static void campaign() { rc_campaign<Case>(name(), tier(500, 50000), 100, gen(), run); }
    static void reg()
    {
        add_inst(name(), campaign, [](const json & j) { return run(Case::from_json(j)); });
    }
};

// ------------------------------------------------------------ clamp above / below an interpolator
enum class Mix { clamp_linear, linear_clamp, nn_clamp };
template <Mix MX, class R, size_t N>
struct WithInterp {
    using SB = cb::strided<cv::vector_d<std::size_t, N>, cb::array<cv::float1>>;
    using LIN = cb::linear<SB, cv::vector_d<R, N>>;
    using B = std::conditional_t<MX == Mix::clamp_linear, cb::clamp<LIN>, std::conditional_t<MX == Mix::linear_clamp, cb::linear<cb::clamp<SB>, cv::vector_d<R, N>>, cb::nearest_neighbour<cb::clamp<SB>, cv::vector_d<R, N>>>>;
    static std::string name()
    {
        return std::string(MX == Mix::clamp_linear ? "clamp<linear<strided>>" : MX == Mix::linear_clamp ? "linear<clamp<strided>>" : "nearest_neighbour<clamp<strided>>") + "/R=" + tname<R>() + "/N=" + std::to_string(N);
    }
    static Verdict run(const Case & c)
    {
        auto s = make_ranked<SB, N>(c.ext);
        std::optional<covfie::field<B>> fo;
        covfie::field<LIN> plain(pack(std::monostate{}, typename SB::owning_data_t(s.backend())));
        typename covfie::field<LIN>::view_t pv(plain);
        typename covfie::field<SB>::view_t sv(s);
        if constexpr (MX == Mix::clamp_linear) {
            typename B::configuration_t cfg;
            for (size_t k = 0; k < N; ++k) {
                cfg.min[k] = from_bits<R>(c.lo[k]);
                cfg.max[k] = from_bits<R>(c.hi[k]);
                if (!(cfg.min[k] >= 0 && cfg.min[k] <= cfg.max[k] && cfg.max[k] < R(c.ext[k] - 1))) {
                    return std::string("bad case: real box not inside the interpolator's domain");
                }
            }
            fo.emplace(pack(cfg, std::monostate{}, typename SB::owning_data_t(s.backend())));
        } else {
            typename cb::clamp<SB>::configuration_t cfg;
            for (size_t k = 0; k < N; ++k) {
                cfg.min[k] = 0;
                cfg.max[k] = c.ext[k] - 1;
            }
            fo.emplace(pack(std::monostate{}, cfg, typename SB::owning_data_t(s.backend())));
        }
        typename covfie::field<B>::view_t v(*fo);
        for (auto & xb : c.xs) {
            typename covfie::field<B>::coordinate_t x;
            for (size_t k = 0; k < N; ++k) {
                x[k] = from_bits<R>(xb[k]);
            }
            float got = v.at(x)[0];
            bool outside = false;
            float want;
            if constexpr (MX == Mix::clamp_linear) {
                // the clamp layer must hand the component-wise clamp to the interpolator beneath it
                typename covfie::field<LIN>::coordinate_t y;
                for (size_t k = 0; k < N; ++k) {
                    R lo = from_bits<R>(c.lo[k]), hi = from_bits<R>(c.hi[k]);
                    y[k] = ref_clamp(x[k], lo, hi);
                    outside = outside || x[k] < lo || x[k] > hi;
                }
                want = pv.at(y)[0];
            } else if constexpr (MX == Mix::nn_clamp) {
                // nearest lattice index as the interpolator computes it (two's complement wrap for negatives), then clamped
                typename covfie::field<SB>::coordinate_t y;
                for (size_t k = 0; k < N; ++k) {
                    uint64_t idx = uint64_t(int64_t(std::llrint(ld(x[k]))));
                    y[k] = std::min<uint64_t>(idx, c.ext[k] - 1);
                    outside = outside || idx > c.ext[k] - 1;
                }
                want = sv.at(y)[0];
            } else {
                // N-linear interpolation over clamped neighbour indices, evaluated in long double
                ld acc = 0;
                for (uint64_t n = 0; n < (uint64_t(1) << N); ++n) {
                    ld w = 1;
                    typename covfie::field<SB>::coordinate_t y;
                    for (size_t k = 0; k < N; ++k) {
                        ld fl = std::floor(ld(x[k]));
                        ld a = ld(x[k]) - fl;
                        bool up = (n >> k) & 1;
                        w *= up ? a : 1 - a;
                        ld idx = fl + (up ? 1 : 0);
                        outside = outside || idx > ld(c.ext[k] - 1);
                        y[k] = idx > ld(c.ext[k] - 1) ? c.ext[k] - 1 : uint64_t(idx);
                    }
                    acc += w * ld(sv.at(y)[0]);
                }
                ld bound = (4 * ld(N) + ld(uint64_t(2) << N) + 8) * (sizeof(R) == 4 ? 0x1p-24L : 0x1p-53L) * std::fabs(acc) + 0x1p-24L * std::fabs(acc) + 1e-30L;
                Hasher h;
                h.vec(c.ext).vec(xb);
                record(name(), outside, h.h, [&] { return json{{"lo_bits", c.lo}, {"hi_bits", c.hi}, {"x_bits", std::vector<std::vector<uint64_t>>{xb}}, {"extents", c.ext}}; });
                if (!(std::fabs(ld(got) - acc) <= bound)) {
                    return "linear over clamped storage returned " + ld_str(got) + ", interpolant over clamped neighbours is " + ld_str(acc);
                }
                continue;
            }
            Hasher h;
            h.vec(c.ext).vec(c.lo).vec(c.hi).vec(xb);
            record(name(), outside, h.h, [&] { return json{{"lo_bits", c.lo}, {"hi_bits", c.hi}, {"x_bits", std::vector<std::vector<uint64_t>>{xb}}, {"extents", c.ext}}; });
            if (!(got == want)) {
                return "lookup returned " + ld_str(got) + ", the value at the clamped coordinate is " + ld_str(want);
            }
        }
        return std::nullopt;
    }
    static rc::Gen<Case> gen()
    {
        const uint64_t mx = N <= 2 ? 12 : 6;
        return rc::gen::mapcat(rc::gen::container<std::vector<uint64_t>>(N, in_range<uint64_t>(2, mx)), [](std::vector<uint64_t> ext) {
            return rc::gen::exec([ext] {
                Case c;
                c.ext = ext;
                std::vector<R> anchors;
                for (auto e : ext) {
                    if (MX == Mix::clamp_linear) {
                        // real box inside [0, e-1)
                        R top = std::nextafter(R(e - 1), R(0));
                        R a = R(*in_range<unsigned>(0, 64)) / R(64) * top, z = R(*in_range<unsigned>(0, 64)) / R(64) * top;
                        if (z < a) {
                            std::swap(a, z);
                        }
                        if (*in_range<unsigned>(0, 2) == 0) {
                            a = 0;
                            z = top;
                        }
                        c.lo.push_back(to_bits<R>(a));
                        c.hi.push_back(to_bits<R>(z));
                        anchors.push_back(a);
                        anchors.push_back(z);
                    } else {
                        anchors.push_back(R(0));
                        anchors.push_back(R(e - 1));
                        anchors.push_back(R(e - 1) + R(0.5));
                    }
                }
                auto comp = rc::gen::map(gen_any<R>(anchors), [](uint64_t b) {
                    R x = from_bits<R>(b);
                    if (MX == Mix::linear_clamp) {
                        // documented domain with a clamp beneath the interpolator: 0 <= x <= 2^62
                        x = std::fabs(x);
                        if (!(x <= R(0x1p62))) {
                            x = R(0x1p62);
                        }
                    } else if (MX == Mix::nn_clamp) {
                        if (!(std::fabs(x) <= R(0x1p62))) {
                            x = std::copysign(R(0x1p62), x);
                        }
                    }
                    return to_bits<R>(x);
                });
                c.xs = *rc::gen::container<std::vector<std::vector<uint64_t>>>(6, rc::gen::container<std::vector<uint64_t>>(N, comp));
                return c;
            });
        });
    }
    static void campaign() { rc_campaign<Case>(name(), tier(400, 40000), 100, gen(), run); }
    static void reg()
    {
        add_inst(name(), campaign, [](const json & j) { return run(Case::from_json(j)); });
    }
};

void register_all()
{
#if VF_GROUP == 0
    OverIdentity<int, 1>::reg();
    OverIdentity<int, 2>::reg();
    OverIdentity<int, 3>::reg();
    OverIdentity<int, 4>::reg();
    OverIdentity<unsigned, 2>::reg();
    OverIdentity<long, 3>::reg();
    OverIdentity<std::size_t, 4>::reg();
    OverIdentity<std::size_t, 1>::reg();
    OverIdentity<float, 1>::reg();
    OverIdentity<float, 3>::reg();
    OverIdentity<double, 1>::reg();
    OverIdentity<double, 2>::reg();
    OverIdentity<double, 3>::reg();
    OverIdentity<double, 4>::reg();
    OverIdentityLD<1>::reg();
    OverIdentityLD<3>::reg();
    OverIdentity<uint16_t, 2>::reg();   // narrow types: comparisons are done after integer promotion
    OverIdentity<short, 3>::reg();
    OverArray<std::size_t, 1>::reg();
    OverArray<std::size_t, 2>::reg();
    OverArray<std::size_t, 3>::reg();
    OverArray<std::size_t, 4>::reg();
    OverArray<unsigned, 2>::reg();
    OverArray<int, 3>::reg();
    OverArray<int, 1>::reg();
    OverArray<unsigned, 4>::reg();
#else
    WithInterp<Mix::clamp_linear, float, 1>::reg();
    WithInterp<Mix::clamp_linear, double, 2>::reg();
    WithInterp<Mix::clamp_linear, float, 3>::reg();
    WithInterp<Mix::clamp_linear, double, 4>::reg();
    WithInterp<Mix::linear_clamp, double, 1>::reg();
    WithInterp<Mix::linear_clamp, float, 2>::reg();
    WithInterp<Mix::linear_clamp, double, 3>::reg();
    WithInterp<Mix::linear_clamp, float, 4>::reg();
    WithInterp<Mix::nn_clamp, float, 1>::reg();
    WithInterp<Mix::nn_clamp, double, 2>::reg();
    WithInterp<Mix::nn_clamp, float, 3>::reg();
    WithInterp<Mix::nn_clamp, double, 4>::reg();
#endif
}
}   // namespace
VF_MAIN(register_all)
