#pragma once
#include "cuda_runtime_api.h"
