// Host shim of the few CUDA runtime entry points covfie's cuda_device_array uses:
// device memory is host memory. Exercises the conversion logic only; makes no claim
// about device execution (reduced assurance, see DESIGN.md C05).
#pragma once
#include <cstdlib>
#include <cstring>
typedef int cudaError_t;
enum { cudaSuccess = 0, cudaErrorMemoryAllocation = 2 };
enum cudaMemcpyKind { cudaMemcpyHostToHost = 0, cudaMemcpyHostToDevice = 1, cudaMemcpyDeviceToHost = 2, cudaMemcpyDeviceToDevice = 3 };
inline const char * cudaGetErrorString(cudaError_t e) { return e == cudaSuccess ? "no error" : "shim error"; }
template <class T>
inline cudaError_t cudaMalloc(T ** p, std::size_t n)
{
    *p = static_cast<T *>(std::malloc(n ? n : 1));
    return *p ? cudaSuccess : cudaErrorMemoryAllocation;
}
inline cudaError_t cudaFree(void * p)
{
    std::free(p);
    return cudaSuccess;
}
inline cudaError_t cudaMemcpy(void * d, const void * s, std::size_t n, cudaMemcpyKind)
{
    if (n) {
        std::memcpy(d, s, n);
    }
    return cudaSuccess;
}
