// C16: any number of threads may look up values through views of the same field at the
// same time, and may write through views to distinct coordinates, without data races;
// every thread obtains exactly the values a sequential execution obtains.
// Built with -fsanitize=thread. Oracle: ThreadSanitizer (happens-before analysis of the
// accesses performed) reports nothing, and per-thread digests equal the sequential ones.
#include "common.hpp"
#include "cov.hpp"

#include <atomic>
#include <thread>
#include <unistd.h>

namespace {
using namespace vf;

struct Case {
    std::vector<uint64_t> ext;
    unsigned threads = 2;
    bool shared_view = true;
    bool writers = false;                                  // writer workload (reference-returning stacks only)
    std::vector<std::vector<std::vector<int>>> lists;      // per thread: coordinates in quarter units (readers) / lattice points (writers)
    json to_json() const { return json{{"extents", ext}, {"threads", threads}, {"shared_view", shared_view}, {"writers", writers}, {"lists_quarter_units", lists}}; }
    static Case from_json(const json & j)
    {
        Case c;
        c.ext = j.at("extents").get<std::vector<uint64_t>>();
        c.threads = j.at("threads");
        c.shared_view = j.at("shared_view");
        c.writers = j.at("writers");
        c.lists = j.at("lists_quarter_units").get<std::vector<std::vector<std::vector<int>>>>();
        return c;
    }
};

// lin_clamp / lin_cast / nn_backup: the interpolator sits on a layer that returns by value (clamp, covariant_cast,
// backup over the storage) instead of directly on reference-returning storage
enum class Ip { none, nn, lin, lin_clamp, lin_cast, nn_backup };
constexpr bool is_lin(Ip i) { return i == Ip::lin || i == Ip::lin_clamp || i == Ip::lin_cast; }
template <Ip I, class S, size_t N>
struct with_interp {
    using type = S;
};
template <class S, size_t N>
struct with_interp<Ip::nn, S, N> {
    using type = cb::nearest_neighbour<S, cv::vector_d<float, N>>;
};
template <class S, size_t N>
struct with_interp<Ip::lin, S, N> {
    using type = cb::linear<S, cv::vector_d<float, N>>;
};

template <class S, size_t N>
struct with_interp<Ip::lin_clamp, S, N> {
    using type = cb::linear<cb::clamp<S>, cv::vector_d<float, N>>;
};
template <class S, size_t N>
struct with_interp<Ip::lin_cast, S, N> {
    using type = cb::linear<cb::covariant_cast<float, S>, cv::vector_d<float, N>>;
};
template <class S, size_t N>
struct with_interp<Ip::nn_backup, S, N> {
    using type = cb::nearest_neighbour<cb::backup<S>, cv::vector_d<float, N>>;
};

template <Lay L, Ip I, bool AFF, size_t N>
struct W {
    using IV = cv::vector_d<std::size_t, N>;
    using A = cb::array<cv::vector_d<float, 2>>;
    using S = layout_t<L, IV, A>;
    using SI = typename with_interp<I, S, N>::type;
    using B = std::conditional_t<AFF, cb::affine<SI>, SI>;
    using F = covfie::field<B>;
    static constexpr bool is_ref = std::is_lvalue_reference_v<typename B::covariant_output_t::vector_t>;
    static std::string name()
    {
        return std::string("concurrent/") + (AFF ? "affine<" : "") + (I == Ip::none ? "" : I == Ip::nn ? "nearest<" : I == Ip::lin ? "linear<" : I == Ip::lin_clamp ? "linear<clamp<" : I == Ip::lin_cast ? "linear<covariant_cast<float," : "nearest<backup<") + lay_name(L) + "/N=" + std::to_string(N);
    }

    static F build(const Case & c)
    {
        typename S::configuration_t e;
        uint64_t cells = 1, mx = 1;
        for (size_t k = 0; k < N; ++k) {
            e[k] = c.ext[k];
            cells *= c.ext[k];
            mx = std::max(mx, c.ext[k]);
        }
        uint64_t len = cells;
        if constexpr (L != Lay::strided) {
            uint64_t side = 1;
            while (side < mx) {
                side *= 2;
            }
            len = 1;
            for (size_t k = 0; k < N; ++k) {
                len *= side;
            }
        }
        covfie::field<S> st(pack(e, typename A::owning_data_t(len)));
        {
            typename covfie::field<S>::view_t v(st);
            for (uint64_t r = 0; r < cells; ++r) {
                typename covfie::field<S>::coordinate_t x;
                uint64_t q = r;
                for (size_t k = N; k-- > 0;) {
                    x[k] = q % c.ext[k];
                    q /= c.ext[k];
                }
                v.at(x)[0] = float(r) + 0.5f;
                v.at(x)[1] = -float(r);
            }
        }
        if constexpr (I == Ip::lin_clamp || I == Ip::nn_backup) {
            // box = the whole lattice: the wrapper never alters an in-range lookup
            using WL = typename SI::backend_t;
            typename WL::configuration_t wc;
            for (size_t k = 0; k < N; ++k) {
                wc.min[k] = 0;
                wc.max[k] = c.ext[k] - 1;
            }
            if constexpr (I == Ip::nn_backup) {
                wc.default_value[0] = -7.f;
                wc.default_value[1] = -9.f;
            }
            static_assert(!AFF);
            return F(pack(std::monostate{}, wc, typename S::owning_data_t(st.backend())));
        } else if constexpr (I == Ip::lin_cast) {
            static_assert(!AFF);
            return F(pack(std::monostate{}, std::monostate{}, typename S::owning_data_t(st.backend())));
        } else if constexpr (AFF && I != Ip::none) {
            auto m = typename B::configuration_t(covfie::algebra::matrix<N, N + 1, float>::identity());
            return F(pack(m, std::monostate{}, typename S::owning_data_t(st.backend())));
        } else if constexpr (I != Ip::none) {
            return F(pack(std::monostate{}, typename S::owning_data_t(st.backend())));
        } else {
            return F(st);
        }
    }
    static typename F::coordinate_t coord(const std::vector<int> & q)
    {
        typename F::coordinate_t x;
        for (size_t k = 0; k < N; ++k) {
            if constexpr (I == Ip::none) {
                x[k] = std::size_t(q[k] / 4);
            } else {
                x[k] = float(q[k]) / 4.f;
            }
        }
        return x;
    }
    static uint64_t read_digest(const typename F::view_t & v, const std::vector<std::vector<int>> & list)
    {
        uint64_t h = 1469598103934665603ULL;
        for (auto & q : list) {
            auto r = v.at(coord(q));
            float a = r[0], b = r[1];
            h = fnv(&a, 4, h);
            h = fnv(&b, 4, h);
        }
        return h;
    }
    static Verdict run(const Case & c)
    {
        if (L == Lay::morton_bmi2 && !have_bmi2()) {
            return std::nullopt;
        }
        F f = build(c);
        typename F::view_t shared(f);
        const unsigned T = c.threads;
        std::vector<uint64_t> seq(T), par(T);
        bool overlap = false;
        if (!c.writers) {
            for (unsigned t = 0; t < T; ++t) {
                seq[t] = read_digest(shared, c.lists[t]);
            }
            std::atomic<unsigned> go{0};
            std::vector<std::thread> th;
            for (unsigned t = 0; t < T; ++t) {
                th.emplace_back([&, t] {
                    go.fetch_add(1);
                    while (go.load() < T) {
                    }
                    if (c.shared_view) {
                        par[t] = read_digest(shared, c.lists[t]);
                    } else {
                        typename F::view_t mine(f);   // per-thread view of the same field
                        par[t] = read_digest(mine, c.lists[t]);
                    }
                });
            }
            for (auto & x : th) {
                x.join();
            }
            // non-trivial: two threads touch the same storage element
            for (unsigned a = 0; a < T && !overlap; ++a) {
                for (unsigned b = a + 1; b < T && !overlap; ++b) {
                    for (auto & p : c.lists[a]) {
                        for (auto & q : c.lists[b]) {
                            bool near = true;
                            for (size_t k = 0; k < N; ++k) {
                                near = near && std::abs(p[k] - q[k]) < 8;
                            }
                            overlap = overlap || near;
                        }
                    }
                }
            }
        } else {
            if constexpr (is_ref) {
                // writers own disjoint lattice points (the generator partitions them); each writes then reads back
                auto work = [&](const typename F::view_t & v, unsigned t) {
                    uint64_t h = 1469598103934665603ULL;
                    for (auto & q : c.lists[t]) {
                        auto & r = v.at(coord(q));
                        r[0] = float(t + 1) * 1000.f + float(q[0]);
                        r[1] = r[0] * 0.5f;
                        float a = v.at(coord(q))[0], b = v.at(coord(q))[1];
                        h = fnv(&a, 4, h);
                        h = fnv(&b, 4, h);
                    }
                    return h;
                };
                {
                    F g(f);
                    typename F::view_t gv(g);
                    for (unsigned t = 0; t < T; ++t) {
                        seq[t] = work(gv, t);
                    }
                }
                std::vector<std::thread> th;
                std::atomic<unsigned> go{0};
                for (unsigned t = 0; t < T; ++t) {
                    th.emplace_back([&, t] {
                        go.fetch_add(1);
                        while (go.load() < T) {
                        }
                        if (c.shared_view) {
                            par[t] = work(shared, t);
                        } else {
                            typename F::view_t mine(f);
                            par[t] = work(mine, t);
                        }
                    });
                }
                for (auto & x : th) {
                    x.join();
                }
                overlap = true;   // writers are placed on adjacent elements by the generator
            } else {
                return std::string("bad case: writer workload on a stack that returns values");
            }
        }
        Hasher h;
        h.vec(c.ext).pod(c.threads).pod(c.shared_view).pod(c.writers);
        for (auto & l : c.lists) {
            for (auto & q : l) {
                h.vec(q);
            }
        }
        label(c.writers ? "writers on disjoint coordinates" : "readers");
        label(c.shared_view ? "one shared view" : "per-thread views");
        record(name(), overlap, h.h, [&] {
            json j = c.to_json();
            j["lists_quarter_units"] = json::array({c.lists[0]});
            return j;
        });
        for (unsigned t = 0; t < T; ++t) {
            if (seq[t] != par[t]) {
                return "thread " + std::to_string(t) + " obtained different values than the sequential execution of the same lookups";
            }
        }
        return std::nullopt;
    }
    static rc::Gen<Case> gen()
    {
        const uint64_t mx = N == 2 ? 9 : N == 3 ? 5 : N == 4 ? 4 : 3;
        return rc::gen::exec([mx] {
            Case c;
            for (size_t k = 0; k < N; ++k) {
                c.ext.push_back(*in_range<uint64_t>(2, mx));
            }
            c.threads = *in_range<unsigned>(2, 16);
            c.shared_view = *rc::gen::arbitrary<bool>();
            c.writers = is_ref && *in_range<unsigned>(0, 2) == 0;
            c.lists.resize(c.threads);
            if (!c.writers) {
                // readers: coordinates inside the interpolator's domain, clustered so that threads overlap
                std::vector<int> centre;
                for (size_t k = 0; k < N; ++k) {
                    centre.push_back(int(*in_range<uint64_t>(0, 4 * (c.ext[k] - 1) - 1)));
                }
                for (auto & l : c.lists) {
                    unsigned n = *in_range<unsigned>(1, 24);
                    for (unsigned i = 0; i < n; ++i) {
                        std::vector<int> q;
                        for (size_t k = 0; k < N; ++k) {
                            int lim = int(4 * (c.ext[k] - 1)) - 1;   // strictly below extent-1 (linear)
                            int v = (*in_range<unsigned>(0, 2) == 0) ? int(*in_range<uint64_t>(0, uint64_t(lim))) : centre[k] + *in_range<int>(-4, 4);
                            q.push_back(std::min(std::max(v, 0), lim));
                        }
                        l.push_back(q);
                    }
                }
            } else {
                // writers: lattice points dealt round-robin to the threads -> disjoint, adjacent elements
                std::vector<std::vector<int>> pts;
                std::vector<uint64_t> idx(N, 0);
                while (true) {
                    std::vector<int> q;
                    for (size_t k = 0; k < N; ++k) {
                        q.push_back(int(4 * idx[k]));
                    }
                    pts.push_back(q);
                    size_t k = N;
                    while (k > 0 && idx[k - 1] + 1 == c.ext[k - 1]) {
                        idx[--k] = 0;
                    }
                    if (k == 0) {
                        break;
                    }
                    idx[k - 1]++;
                }
                unsigned off = *in_range<unsigned>(0, c.threads - 1);
                for (size_t i = 0; i < pts.size(); ++i) {
                    c.lists[(i + off) % c.threads].push_back(pts[i]);
                }
            }
            return c;
        });
    }
    static void campaign() { rc_campaign<Case>(name(), tier(40, 1500), 100, gen(), run); }
    static void reg()
    {
        add_inst(name(), campaign, [](const json & j) { return run(Case::from_json(j)); });
    }
};

// Readers of an interpolating stack next to writers of lattice points that are no corner of any reader's cell: along
// axis 0 readers stay in [4j+1, 4j+2) (corners 4j+1 and 4j+2, the lattice point 4j+1 itself included), writers own the
// points 4j and 4j+3. "Distinct coordinates" - the reads and writes touch disjoint storage, so ThreadSanitizer must stay
// silent and every reader must obtain the sequential values.
template <Lay L, size_t N>
struct Mixed {
    using IV = cv::vector_d<std::size_t, N>;
    using A = cb::array<cv::vector_d<float, 2>>;
    using S = layout_t<L, IV, A>;
    using B = cb::linear<S, cv::vector_d<float, N>>;
    using F = covfie::field<B>;
    static std::string name() { return std::string("readers of linear<") + lay_name(L) + "> beside writers of other lattice points/N=" + std::to_string(N); }
    static Verdict run(const Case & c)
    {
        if (L == Lay::morton_bmi2 && !have_bmi2()) {
            return std::nullopt;
        }
        F f = W<L, Ip::lin, false, N>::build(c);
        typename F::view_t shared(f);
        typename S::non_owning_data_t raw(f.backend().get_backend());
        const unsigned T = c.threads, R = (T + 1) / 2;
        auto coord = [](const std::vector<int> & q) {
            typename F::coordinate_t x;
            for (size_t k = 0; k < N; ++k) {
                x[k] = float(q[k]) / 4.f;
            }
            return x;
        };
        auto read_digest = [&](const typename F::view_t & v, const std::vector<std::vector<int>> & list) {
            uint64_t h = 1469598103934665603ULL;
            for (auto & q : list) {
                auto r = v.at(coord(q));
                float a = r[0], b = r[1];
                h = fnv(&a, 4, h);
                h = fnv(&b, 4, h);
            }
            return h;
        };
        std::vector<uint64_t> seq(T, 0), par(T, 0);
        for (unsigned t = 0; t < R; ++t) {
            seq[t] = read_digest(shared, c.lists[t]);
        }
        std::atomic<unsigned> go{0};
        std::vector<std::thread> th;
        for (unsigned t = 0; t < T; ++t) {
            th.emplace_back([&, t] {
                go.fetch_add(1);
                while (go.load() < T) {
                }
                if (t < R) {
                    if (c.shared_view) {
                        par[t] = read_digest(shared, c.lists[t]);
                    } else {
                        typename F::view_t mine(f);
                        par[t] = read_digest(mine, c.lists[t]);
                    }
                } else {
                    for (auto & q : c.lists[t]) {
                        typename S::contravariant_input_t::vector_t x;
                        for (size_t k = 0; k < N; ++k) {
                            x[k] = std::size_t(q[k]);
                        }
                        auto & cell = raw.at(x);
                        cell[0] = float(t) * 100.f + float(q[0]);
                        cell[1] = -cell[0];
                    }
                }
            });
        }
        for (auto & x : th) {
            x.join();
        }
        Hasher h;
        h.vec(c.ext).pod(c.threads).pod(c.shared_view);
        for (auto & l : c.lists) {
            for (auto & q : l) {
                h.vec(q);
            }
        }
        record(name(), true, h.h, [&] { return c.to_json(); });
        for (unsigned t = 0; t < R; ++t) {
            if (par[t] != seq[t]) {
                return "reader " + std::to_string(t) + " obtained different values than the sequential execution, although the writers only touched lattice points outside its cells";
            }
        }
        return std::nullopt;
    }
    static rc::Gen<Case> gen()
    {
        return rc::gen::exec([] {
            Case c;
            const unsigned m = *in_range<unsigned>(2, N <= 2 ? 6 : 3);
            c.ext.push_back(4 * m);
            for (size_t k = 1; k < N; ++k) {
                c.ext.push_back(*in_range<uint64_t>(2, N <= 3 ? 5 : 3));
            }
            c.threads = *in_range<unsigned>(2, 8);
            c.shared_view = *rc::gen::arbitrary<bool>();
            c.writers = false;
            const unsigned T = c.threads, R = (T + 1) / 2, Wn = T - R;
            c.lists.assign(T, {});
            for (unsigned t = 0; t < R; ++t) {
                unsigned n = *in_range<unsigned>(4, 24);
                for (unsigned i = 0; i < n; ++i) {
                    std::vector<int> q;
                    unsigned j = *in_range<unsigned>(0, m - 1);
                    // every third lookup sits exactly on the lattice point 4j+1 (an odd integer)
                    q.push_back(int((4 * j + 1) * 4 + (*in_range<unsigned>(0, 2) == 0 ? 0 : *in_range<unsigned>(0, 3))));
                    for (size_t k = 1; k < N; ++k) {
                        q.push_back(int(*in_range<unsigned>(0, unsigned(4 * (c.ext[k] - 1) - 1))));
                    }
                    c.lists[t].push_back(q);
                }
            }
            // writers: every lattice point with x0 in {4j, 4j+3}, dealt out round-robin
            uint64_t cells = 1;
            for (auto e : c.ext) {
                cells *= e;
            }
            unsigned w = 0;
            for (uint64_t r = 0; r < cells && Wn > 0; ++r) {
                std::vector<int> q(N);
                uint64_t qd = r;
                for (size_t k = N; k-- > 0;) {
                    q[k] = int(qd % c.ext[k]);
                    qd /= c.ext[k];
                }
                if (q[0] % 4 == 0 || q[0] % 4 == 3) {
                    c.lists[R + (w++ % Wn)].push_back(q);
                }
            }
            return c;
        });
    }
    static void campaign() { rc_campaign<Case>(name(), tier(40, 1500), 100, gen(), run); }
    static void reg()
    {
        add_inst(name(), campaign, [](const json & j) { return run(Case::from_json(j)); });
    }
};

// deliberately racy workload: TSan must report it (positive control of the environment)
void racy_control()
{
    using B = cb::strided<cv::size2, cb::array<cv::float1>>;
    covfie::field<B> f(pack(B::configuration_t{4, 4}));
    covfie::field<B>::view_t v(f);
    std::thread a([&] {
        for (int i = 0; i < 100000; ++i) {
            v.at(1ul, 1ul)[0] += 1.f;
        }
    });
    std::thread b([&] {
        for (int i = 0; i < 100000; ++i) {
            v.at(1ul, 1ul)[0] += 2.f;
        }
    });
    a.join();
    b.join();
    fprintf(stderr, "CONTROL-FINISHED-WITHOUT-REPORT %f\n", double(v.at(1ul, 1ul)[0]));
}

// Cold start: the very first index computations of the process happen concurrently (an empty field built from a
// parameter pack and filled by disjoint writers). Lazily initialised shared state inside an index function would be
// raced on here and nowhere else, because every other workload warms the code up sequentially first.
template <Lay L, size_t N>
void cold_start()
{
    using IV = cv::vector_d<std::size_t, N>;
    using A = cb::array<cv::vector_d<float, 2>>;
    using S = layout_t<L, IV, A>;
    if (L == Lay::morton_bmi2 && !have_bmi2()) {
        return;
    }
    typename S::configuration_t e;
    uint64_t cells = 1, side = 1;
    for (size_t k = 0; k < N; ++k) {
        e[k] = 5 + k;
        cells *= e[k];
    }
    while (side < 5 + N - 1) {
        side *= 2;
    }
    uint64_t len = cells;
    if (L != Lay::strided) {
        len = 1;
        for (size_t k = 0; k < N; ++k) {
            len *= side;
        }
    }
    covfie::field<S> f(pack(e, typename A::owning_data_t(len)));
    typename covfie::field<S>::view_t v(f);
    const unsigned T = 8;
    std::atomic<unsigned> go{0};
    std::vector<std::thread> th;
    auto coord_of = [&](uint64_t r) {
        typename covfie::field<S>::coordinate_t x;
        for (size_t k = N; k-- > 0;) {
            x[k] = r % e[k];
            r /= e[k];
        }
        return x;
    };
    for (unsigned t = 0; t < T; ++t) {
        th.emplace_back([&, t] {
            go.fetch_add(1);
            while (go.load() < T) {
            }
            for (uint64_t r = t; r < cells; r += T) {
                v.at(coord_of(r))[0] = float(r);
                v.at(coord_of(r))[1] = -float(r);
            }
        });
    }
    for (auto & x : th) {
        x.join();
    }
    for (uint64_t r = 0; r < cells; ++r) {
        if (v.at(coord_of(r))[0] != float(r) || v.at(coord_of(r))[1] != -float(r)) {
            fprintf(stderr, "COLD-START-VALUE-MISMATCH at cell %llu\n", (unsigned long long)r);
            fflush(nullptr);
            _exit(1);
        }
    }
}

template <Lay L, size_t N>
void reg_layout()
{
    W<L, Ip::none, false, N>::reg();
    W<L, Ip::nn, false, N>::reg();
    W<L, Ip::lin, false, N>::reg();
    W<L, Ip::nn, true, N>::reg();
    W<L, Ip::lin, true, N>::reg();
}

void register_all()
{
    if (const char * k = getenv("VERIF_TSAN_COLD")) {
        static const std::vector<std::pair<std::string, void (*)()>> colds{
            {"strided/N=3", cold_start<Lay::strided, 3>}, {"morton_bmi2/N=2", cold_start<Lay::morton_bmi2, 2>}, {"morton_portable/N=2", cold_start<Lay::morton_port, 2>},
            {"morton_portable/N=3", cold_start<Lay::morton_port, 3>}, {"morton_bmi2/N=4", cold_start<Lay::morton_bmi2, 4>}, {"hilbert/N=2", cold_start<Lay::hilbert, 2>}};
        size_t i = size_t(atoi(k)) % colds.size();
        add_inst("cold/" + colds[i].first, colds[i].second, [](const json &) { return std::nullopt; });
        return;
    }
    if (getenv("VERIF_TSAN_CONTROL")) {
        add_inst("control", racy_control, [](const json &) { return std::nullopt; });
        return;
    }
    reg_layout<Lay::strided, 2>();
    reg_layout<Lay::strided, 3>();
    reg_layout<Lay::morton_bmi2, 2>();
    reg_layout<Lay::morton_port, 3>();
    reg_layout<Lay::hilbert, 2>();
    // the generic (N >= 4) branch of the linear interpolator is a separate code path
    reg_layout<Lay::strided, 4>();
    W<Lay::morton_bmi2, Ip::lin, true, 4>::reg();
    W<Lay::strided, Ip::lin, false, 5>::reg();
    W<Lay::morton_port, Ip::lin, false, 4>::reg();
    W<Lay::morton_port, Ip::none, false, 4>::reg();
    // readers of interpolating stacks beside writers of lattice points outside their cells
    Mixed<Lay::strided, 1>::reg();
    Mixed<Lay::strided, 2>::reg();
    Mixed<Lay::morton_port, 2>::reg();
    Mixed<Lay::strided, 3>::reg();
    Mixed<Lay::hilbert, 2>::reg();
    Mixed<Lay::strided, 4>::reg();
    // interpolators over layers that return by value
    W<Lay::strided, Ip::lin_clamp, false, 1>::reg();
    W<Lay::strided, Ip::lin_clamp, false, 2>::reg();
    W<Lay::morton_port, Ip::lin_cast, false, 2>::reg();
    W<Lay::strided, Ip::lin_cast, false, 3>::reg();
    W<Lay::hilbert, Ip::lin_clamp, false, 2>::reg();
    W<Lay::strided, Ip::nn_backup, false, 2>::reg();
    W<Lay::strided, Ip::lin_cast, false, 4>::reg();
}
}   // namespace
VF_MAIN(register_all)
