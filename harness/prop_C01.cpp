// C01: storage-order layers behave as an N-dimensional array.
//  (a) model N-D array: writes through a view are read back bit-for-bit, nothing else changes
//  (b) a fill with pairwise distinct values is read back (index map injective on the box)
//  (c) the same layer over identity<size1>: positions pairwise distinct and below the allocated length
//  (d) ASan + the library's own assertions are live (no -DNDEBUG)
#include "common.hpp"
#include "cov.hpp"
#include "ref.hpp"

#ifndef VF_GROUP
#define VF_GROUP 0
#endif

namespace {
using namespace vf;
using ID = cb::identity<cv::size1>;

struct Write {
    std::vector<uint64_t> coord;
    std::vector<uint64_t> bits;   // M scalars as bit patterns
};
struct Case {
    std::vector<uint64_t> ext;
    std::string construct;   // "extents" (row-major only) | "convert" | "pack"
    std::vector<Write> writes;
    unsigned slack = 0;   // "pack" only: the caller's array is longer than the documented length (0: exact, 1: +1, 2: +len/2+1, 3: four times)
    json to_json() const
    {
        json w = json::array();
        for (auto & x : writes) {
            w.push_back(json{{"coord", x.coord}, {"bits", x.bits}});
        }
        return json{{"extents", ext}, {"construct", construct}, {"writes", w}, {"slack", slack}};
    }
    static Case from_json(const json & j)
    {
        Case c;
        c.ext = j.at("extents").get<std::vector<uint64_t>>();
        c.construct = j.at("construct");
        c.slack = j.value("slack", 0u);
        for (auto & x : j.at("writes")) {
            c.writes.push_back({x.at("coord").get<std::vector<uint64_t>>(), x.at("bits").get<std::vector<uint64_t>>()});
        }
        return c;
    }
};

std::string cstr(const std::vector<uint64_t> & c)
{
    std::ostringstream os;
    os << "(";
    for (size_t i = 0; i < c.size(); ++i) {
        os << (i ? "," : "") << c[i];
    }
    os << ")";
    return os.str();
}
template <class F>
void for_box(const std::vector<uint64_t> & ext, F && f)
{
    std::vector<uint64_t> c(ext.size(), 0);
    while (true) {
        f(c);
        size_t k = ext.size();
        while (k > 0 && c[k - 1] + 1 == ext[k - 1]) {
            c[--k] = 0;
        }
        if (k == 0) {
            break;
        }
        c[k - 1]++;
    }
}

// extents: boundary-biased (2^k-1, 2^k, 2^k+1), one long axis / others short, under caps
rc::Gen<std::vector<uint64_t>> gen_extents(size_t N, uint64_t max_side, uint64_t cell_cap)
{
    auto side = rc::gen::map(rc::gen::tuple(in_range<unsigned>(0, 3), in_range<unsigned>(0, 10), in_range<int>(-1, 1), in_range<uint64_t>(1, max_side)), [max_side](std::tuple<unsigned, unsigned, int, uint64_t> t) {
        uint64_t v;
        switch (std::get<0>(t)) {
            case 0: v = uint64_t(int64_t(uint64_t(1) << std::get<1>(t)) + std::get<2>(t)); break;
            case 1: v = 1 + std::get<3>(t) % 6; break;
            default: v = std::get<3>(t);
        }
        return std::min<uint64_t>(std::max<uint64_t>(v, 1), max_side);
    });
    return rc::gen::map(rc::gen::container<std::vector<uint64_t>>(N, side), [cell_cap](std::vector<uint64_t> e) {
        // shrink the shorter axes first until the cell cap holds (keeps one long axis)
        while (true) {
            uint64_t cells = 1;
            for (auto x : e) {
                cells *= x;
            }
            if (cells <= cell_cap) {
                break;
            }
            auto it = std::max_element(e.begin(), e.end());
            // halve the second largest if there is one, else the largest
            std::vector<uint64_t> s(e);
            std::sort(s.begin(), s.end());
            uint64_t target = s.size() > 1 && s[s.size() - 2] > 1 ? s[s.size() - 2] : *it;
            for (auto & x : e) {
                if (x == target) {
                    x = std::max<uint64_t>(1, x / 2);
                    break;
                }
            }
        }
        return e;
    });
}

rc::Gen<std::vector<Write>> gen_writes(const std::vector<uint64_t> & ext, size_t M, bool dbl)
{
    auto coord = rc::gen::exec([ext] {
        std::vector<uint64_t> c;
        for (auto e : ext) {
            c.push_back(*rc::gen::weightedOneOf<uint64_t>({{1, rc::gen::just<uint64_t>(0)}, {1, rc::gen::just<uint64_t>(e - 1)}, {4, in_range<uint64_t>(0, e - 1)}}));
        }
        return c;
    });
    auto bits = rc::gen::map(rc::gen::arbitrary<uint64_t>(), [dbl](uint64_t b) { return dbl ? b : (b & 0xFFFFFFFFULL); });
    auto w = rc::gen::map(rc::gen::pair(coord, rc::gen::container<std::vector<uint64_t>>(M, bits)), [](std::pair<std::vector<uint64_t>, std::vector<uint64_t>> p) { return Write{p.first, p.second}; });
    return rc::gen::resize(64, rc::gen::container<std::vector<Write>>(w));
}

template <Lay L, class I, size_t N, class T, size_t M>
struct Arr {
    using A = cb::array<cv::vector_d<T, M>>;
    using IV = cv::vector_d<I, N>;
    using B = layout_t<L, IV, A>;
    using SB = cb::strided<IV, A>;
    using BI = layout_t<L, IV, ID>;
    using bits_t = std::conditional_t<sizeof(T) == 4, uint32_t, uint64_t>;
    static std::string name() { return std::string("array/") + lay_name(L) + "/N=" + std::to_string(N) + "/I=" + tname<I>() + "/M=" + std::to_string(M) + "/T=" + tname<T>(); }

    static uint64_t alloc_side(const std::vector<uint64_t> & ext) { return uint64_t(ref::round_pow2(*std::max_element(ext.begin(), ext.end()))); }

    static bool f_len_mismatch(const covfie::field<B> & f, uint64_t given) { return f.backend().get_backend().get_configuration()[0] != given; }
    static uint64_t ref_len(const std::vector<uint64_t> & ext)
    {
        uint64_t len = 1;
        for (size_t k = 0; k < N; ++k) {
            len *= alloc_side(ext);
        }
        return len;
    }
    static Verdict run(const Case & c)
    {
        typename B::configuration_t e;
        uint64_t cells = 1;
        bool cube_pow2 = true, all_ones = true;
        for (size_t k = 0; k < N; ++k) {
            e[k] = c.ext[k];
            cells *= c.ext[k];
            cube_pow2 = cube_pow2 && c.ext[k] == c.ext[0] && (c.ext[k] & (c.ext[k] - 1)) == 0;
            all_ones = all_ones && c.ext[k] == 1;
        }
        // ---- construction
        std::optional<covfie::field<B>> fo;
        if (c.construct == "extents") {
            if constexpr (L == Lay::strided) {
                fo.emplace(pack(e));
            } else {
                return std::string("bad case: only the row-major layer is constructible from extents");
            }
        } else if (c.construct == "convert") {
            covfie::field<SB> s(pack(e));
            fo.emplace(s);
        } else if (c.construct == "convert_rvalue") {
            // conversion from a temporary / moved-from-here row-major field (a function result, std::move)
            covfie::field<SB> s(pack(e));
            fo.emplace(std::move(s));
        } else {
            // documented storage length of curve layouts: ipow(round_pow2(max extent), N)
            uint64_t len = cells;
            if constexpr (L != Lay::strided) {
                len = 1;
                for (size_t k = 0; k < N; ++k) {
                    len *= alloc_side(c.ext);
                }
            }
            // a caller may hand over a longer array than that; the layout of the in-range cells does not depend on it
            const uint64_t given = c.slack == 0 ? len : c.slack == 1 ? len + 1 : (c.slack == 2 || len * M * sizeof(T) > (uint64_t(8) << 20)) ? len + len / 2 + 1 : 4 * len;
            fo.emplace(pack(e, typename A::owning_data_t(given)));
            if (f_len_mismatch(*fo, given)) {
                return std::string("the field does not keep the array it was constructed with (length ") + std::to_string(given) + ")";
            }
            if (c.slack) {
                label("parameter pack with an array longer than the documented storage length");
            }
        }
        covfie::field<B> & f = *fo;
        typename covfie::field<B>::view_t v(f);
        uint64_t allocated = f.backend().get_backend().get_configuration()[0];
        if (c.construct == "pack" && c.slack) {
            // positions must stay below the documented length, whatever the caller allocated
            allocated = L == Lay::strided ? cells : ref_len(c.ext);
        }

        // ---- (c) positions over identity<size1>: distinct and below the allocated length
        {
            covfie::field<BI> fi(pack(e, std::monostate{}));
            typename covfie::field<BI>::view_t vi(fi);
            std::vector<bool> used(allocated, false);
            Verdict bad;
            for_box(c.ext, [&](const std::vector<uint64_t> & cc) {
                if (bad) {
                    return;
                }
                typename covfie::field<BI>::coordinate_t x;
                for (size_t k = 0; k < N; ++k) {
                    x[k] = I(cc[k]);
                }
                uint64_t p = vi.at(x)[0];
                if (p >= allocated) {
                    bad = "flat position " + std::to_string(p) + " of coordinate " + cstr(cc) + " is not below the allocated length " + std::to_string(allocated);
                } else if (used[p]) {
                    bad = "coordinate " + cstr(cc) + " shares flat position " + std::to_string(p) + " with another in-range coordinate";
                } else {
                    used[p] = true;
                }
            });
            if (bad) {
                return bad;
            }
        }

        // ---- model: row-major std::vector of bit patterns
        std::vector<bits_t> model(cells * M, 0);
        auto rank = [&](const std::vector<uint64_t> & cc) { return uint64_t(ref::row_major(cc, c.ext)); };
        auto lib_coord = [&](const std::vector<uint64_t> & cc) {
            typename covfie::field<B>::coordinate_t x;
            for (size_t k = 0; k < N; ++k) {
                x[k] = I(cc[k]);
            }
            return x;
        };
        auto compare_all = [&](const char * when) -> Verdict {
            Verdict bad;
            for_box(c.ext, [&](const std::vector<uint64_t> & cc) {
                if (bad) {
                    return;
                }
                auto & r = v.at(lib_coord(cc));
                uint64_t rk = rank(cc);
                for (size_t j = 0; j < M; ++j) {
                    bits_t b;
                    std::memcpy(&b, &r[j], sizeof b);
                    if (b != model[rk * M + j]) {
                        bad = std::string(when) + ": coordinate " + cstr(cc) + " component " + std::to_string(j) + " reads " + bits_hex(b) + ", model holds " + bits_hex(model[rk * M + j]);
                        return;
                    }
                }
            });
            return bad;
        };
        // (the contents of freshly constructed storage are not part of this property: nothing is read before it is written)
        // ---- (b) distinct fill
        for_box(c.ext, [&](const std::vector<uint64_t> & cc) {
            auto & r = v.at(lib_coord(cc));
            uint64_t rk = rank(cc);
            for (size_t j = 0; j < M; ++j) {
                T val = T(rk * M + j + 1);
                r[j] = val;
                std::memcpy(&model[rk * M + j], &val, sizeof(T));
            }
        });
        if (auto b = compare_all("after a fill with pairwise distinct values")) {
            return b;
        }
        // ---- (a) generated writes (arbitrary bit patterns), field compared with the model
        size_t step = 0;
        for (auto & w : c.writes) {
            ++step;
            auto & r = v.at(lib_coord(w.coord));
            uint64_t rk = rank(w.coord);
            for (size_t j = 0; j < M; ++j) {
                bits_t b = bits_t(w.bits[j]);
                std::memcpy(&r[j], &b, sizeof b);   // raw bits: no FP conversion on the way in
                model[rk * M + j] = b;
            }
            if (cells <= 512 || step == c.writes.size()) {
                if (auto b = compare_all(("after write #" + std::to_string(step)).c_str())) {
                    return b;
                }
            } else {
                // the written cell itself and the cells of the other generated coordinates
                for (auto & o : c.writes) {
                    auto & q = v.at(lib_coord(o.coord));
                    uint64_t ok = rank(o.coord);
                    for (size_t j = 0; j < M; ++j) {
                        bits_t b;
                        std::memcpy(&b, &q[j], sizeof b);
                        if (b != model[ok * M + j]) {
                            return "after write #" + std::to_string(step) + " at " + cstr(w.coord) + ": coordinate " + cstr(o.coord) + " reads " + bits_hex(b) + ", model holds " + bits_hex(model[ok * M + j]);
                        }
                    }
                }
            }
        }
        bool nontriv = !all_ones && !(L != Lay::strided && cube_pow2);
        Hasher h;
        h.vec(c.ext).str(c.construct).pod(c.construct == "pack" ? c.slack : 0u);
        for (auto & w : c.writes) {
            h.vec(w.coord).vec(w.bits);
        }
        if (c.construct == "pack") {
            label("constructed from a parameter pack with documented storage length");
        } else if (c.construct == "convert" || c.construct == "convert_rvalue") {
            label(c.construct == "convert" ? "constructed by conversion from a row-major field" : "constructed by conversion from an rvalue row-major field");
        }
        if (!cube_pow2) {
            label("not a power-of-two cube");
        }
        record(name(), nontriv, h.h, [&] { return c.to_json(); });
        return std::nullopt;
    }

    static void campaign()
    {
        if (L == Lay::morton_bmi2 && !have_bmi2()) {
            note(name() + ": skipped, CPU without BMI2");
            return;
        }
        static const uint64_t Bq[] = {0, 64, 24, 9, 5}, Bt[] = {0, 256, 64, 16, 8};
        const uint64_t Bd = tier(Bq[N], Bt[N]);
        const std::vector<std::string> ctors = L == Lay::strided ? std::vector<std::string>{"extents", "pack"} : std::vector<std::string>{"convert", "pack", "convert_rvalue"};
        std::vector<uint64_t> e(N, 1);
        uint64_t n = 0;
        while (true) {
            // two fixed writes so that the exhaustive part also exercises overwrite + neighbours
            Case c{e, ctors[n % ctors.size()], {}, unsigned((n / 2) % 4)};
            std::vector<uint64_t> last(N);
            for (size_t k = 0; k < N; ++k) {
                last[k] = e[k] - 1;
            }
            c.writes.push_back({last, std::vector<uint64_t>(M, 0x7fc00001ULL)});
            c.writes.push_back({std::vector<uint64_t>(N, 0), std::vector<uint64_t>(M, 0x80000000ULL)});
            run_explicit(name(), c, run);
            ++n;
            size_t k = 0;
            while (k < N && e[k] == Bd) {
                e[k++] = 1;
            }
            if (k == N) {
                break;
            }
            e[k]++;
        }
        note_exhaustive(name() + ": all " + std::to_string(n) + " extent vectors with extents in 1.." + std::to_string(Bd));
        // random shapes beyond the bound; allocation (side^N cells for curves) capped at 32 MiB
        uint64_t max_side = 300;
        if (L != Lay::strided) {
            uint64_t cap_cells = (uint64_t(1) << 25) / (M * sizeof(T));
            max_side = 1;
            while (true) {
                uint64_t s = max_side * 2, a = 1;
                for (size_t k = 0; k < N; ++k) {
                    a *= s;
                }
                if (a > cap_cells || s > 1024) {
                    break;
                }
                max_side = s;
            }
        }
        auto g = rc::gen::mapcat(gen_extents(N, max_side, uint64_t(1) << 18), [ctors](std::vector<uint64_t> ext) {
            return rc::gen::map(rc::gen::tuple(rc::gen::elementOf(ctors), gen_writes(ext, M, sizeof(T) == 8), in_range<unsigned>(0, 3)), [ext](std::tuple<std::string, std::vector<Write>, unsigned> p) { return Case{ext, std::get<0>(p), std::get<1>(p), std::get<2>(p)}; });
        });
        rc_campaign<Case>(name(), tier(60, 1500), 100, g, run);
    }
    static void reg()
    {
        add_inst(name(), campaign, [](const json & j) { return run(Case::from_json(j)); });
    }
};

// (M,T) rotates over {(1,float),(2,double),(3,float),(4,double)} with N; every (layer, N) with each I
template <Lay L, class I>
void reg_all_n()
{
    Arr<L, I, 1, float, 1>::reg();
    Arr<L, I, 2, double, 2>::reg();
    Arr<L, I, 3, float, 3>::reg();
    Arr<L, I, 4, double, 4>::reg();
}
// Sparse boxes that no array-backed field of this harness can afford (a 3-D box 300 x 2 x 1 needs 512^3 cells of curve
// storage): the layer over identity<size1> gives the flat positions without storage. In-range coordinates must map to
// pairwise distinct positions below the documented length.
template <Lay L, size_t N>
struct Thin {
    using IV = cv::vector_d<std::size_t, N>;
    using BI = layout_t<L, IV, ID>;
    static std::string name() { return std::string("positions over identity, thin boxes/") + lay_name(L) + "/N=" + std::to_string(N); }
    static Verdict run(const Case & c)
    {
        typename BI::configuration_t e;
        ref::u128 len = 1, cells = 1;
        uint64_t mx = 1;
        for (size_t k = 0; k < N; ++k) {
            e[k] = c.ext[k];
            cells *= c.ext[k];
            mx = std::max(mx, c.ext[k]);
        }
        if (L == Lay::strided) {
            len = cells;
        } else {
            for (size_t k = 0; k < N; ++k) {
                len *= ref::round_pow2(mx);
            }
        }
        covfie::field<BI> fi(pack(e, std::monostate{}));
        typename covfie::field<BI>::view_t vi(fi);
        std::vector<uint64_t> pos;
        pos.reserve(size_t(cells));
        Verdict bad;
        for_box(c.ext, [&](const std::vector<uint64_t> & cc) {
            if (bad) {
                return;
            }
            typename covfie::field<BI>::coordinate_t x;
            for (size_t k = 0; k < N; ++k) {
                x[k] = cc[k];
            }
            uint64_t p = vi.at(x)[0];
            if (ref::u128(p) >= len) {
                bad = "flat position " + std::to_string(p) + " of coordinate " + cstr(cc) + " is not below the documented storage length";
            }
            pos.push_back(p);
        });
        if (bad) {
            return bad;
        }
        std::sort(pos.begin(), pos.end());
        for (size_t i = 1; i < pos.size(); ++i) {
            if (pos[i] == pos[i - 1]) {
                return "two in-range coordinates of the box " + cstr(c.ext) + " share flat position " + std::to_string(pos[i]);
            }
        }
        Hasher h;
        h.vec(c.ext);
        label("thin box (one long axis), positions over identity");
        record(name(), true, h.h, [&] { return c.to_json(); });
        return std::nullopt;
    }
    static void campaign()
    {
        if (L == Lay::morton_bmi2 && !have_bmi2()) {
            return;
        }
        // one long axis (up to 2^17 for N = 2, 2^13 / 2^10 beyond; documented length < 2^64), the others 1..3; at most 2^18 cells
        const unsigned top = N == 1 ? 20 : N == 2 ? 17 : N == 3 ? 13 : 10;
        auto g = rc::gen::map(rc::gen::tuple(in_range<size_t>(0, N - 1), in_range<unsigned>(5, top), in_range<int>(-2, 2), rc::gen::container<std::vector<uint64_t>>(N, in_range<uint64_t>(1, 3))), [](std::tuple<size_t, unsigned, int, std::vector<uint64_t>> t) {
            Case c;
            c.ext = std::get<3>(t);
            c.ext[std::get<0>(t)] = uint64_t(int64_t(uint64_t(1) << std::get<1>(t)) + std::get<2>(t));
            c.construct = "identity";
            return c;
        });
        rc_campaign<Case>(name(), tier(40, 1200), 100, g, run);
    }
    static void reg()
    {
        add_inst(name(), campaign, [](const json & j) { return run(Case::from_json(j)); });
    }
};

template <Lay L>
void reg_layer()
{
    Thin<L, 2>::reg();
    Thin<L, 3>::reg();
    Thin<L, 4>::reg();
    reg_all_n<L, std::size_t>();
    reg_all_n<L, unsigned>();
    reg_all_n<L, int>();
    // the remaining (M,T) combinations on size_t coordinates
    Arr<L, std::size_t, 2, float, 4>::reg();
    Arr<L, std::size_t, 3, double, 1>::reg();
    // a 16-bit coordinate scalar (beyond the listed ones) for the curve layouts, whose positions are computed in size_t;
    // the row-major layer accumulates its index in the coordinate scalar itself, so narrower types than the listed ones
    // cannot address more cells than they can count (documented limitation, not exercised)
    if constexpr (L != Lay::strided) {
        Arr<L, uint16_t, 2, float, 2>::reg();
    }
}

void register_all()
{
#if VF_GROUP == 0
    reg_layer<Lay::strided>();
#elif VF_GROUP == 1
    reg_layer<Lay::morton_bmi2>();
#elif VF_GROUP == 2
    reg_layer<Lay::morton_port>();
#elif VF_GROUP == 3
    Arr<Lay::hilbert, std::size_t, 2, float, 1>::reg();
    Arr<Lay::hilbert, unsigned, 2, double, 2>::reg();
    Arr<Lay::hilbert, int, 2, float, 3>::reg();
    Arr<Lay::hilbert, std::size_t, 2, double, 4>::reg();
    Arr<Lay::hilbert, uint16_t, 2, float, 2>::reg();
#endif
}
}   // namespace
VF_MAIN(register_all)
