// C05: constructing a field of one composition from a field of another compatible
// composition (different storage order / interpolator, same geometry) yields a field
// with the same configuration and the same value at every lattice coordinate;
// converting back reproduces the original; a copying conversion leaves the source
// unchanged.
#include <array>
#include <cmath>
#include "common.hpp"
#include "cov.hpp"
#include "ref.hpp"

#include <sstream>

#if defined(VF_GROUP) && VF_GROUP == 4
#include <covfie/cuda/backend/primitive/cuda_device_array.hpp>
#endif

#ifndef VF_GROUP
#define VF_GROUP 0
#endif

namespace {
using namespace vf;

struct Case {
    std::vector<uint64_t> ext;
    uint64_t seed = 0;
    bool move = false;
    std::vector<uint64_t> matrix;   // whole-stack pairs: affine matrix, bit patterns
    json to_json() const { return json{{"extents", ext}, {"content_seed", seed}, {"move", move}, {"matrix_bits", matrix}}; }
    static Case from_json(const json & j)
    {
        Case c;
        c.ext = j.at("extents").get<std::vector<uint64_t>>();
        c.seed = j.at("content_seed");
        c.move = j.at("move");
        c.matrix = j.at("matrix_bits").get<std::vector<uint64_t>>();
        return c;
    }
};

template <class F>
void for_box(const std::vector<uint64_t> & ext, F && f)
{
    std::vector<uint64_t> c(ext.size(), 0);
    while (true) {
        f(c);
        size_t k = ext.size();
        while (k > 0 && c[k - 1] + 1 == ext[k - 1]) {
            c[--k] = 0;
        }
        if (k == 0) {
            break;
        }
        c[k - 1]++;
    }
}
std::string cstr(const std::vector<uint64_t> & c)
{
    std::ostringstream os;
    os << "(";
    for (size_t i = 0; i < c.size(); ++i) {
        os << (i ? "," : "") << c[i];
    }
    os << ")";
    return os.str();
}

// pairwise distinct bit patterns: index in the low 20 bits, hashed bits above
template <class T>
T content(uint64_t seed, uint64_t idx)
{
    using bits_t = std::conditional_t<sizeof(T) == 4, uint32_t, uint64_t>;
    bits_t b = bits_t((mix(seed, idx) << 20) | (idx & 0xFFFFF));
    // a few cells hold values that compare equal to something else but are different bit patterns
    switch ((idx + seed) % 23) {
        case 3: b = bits_t(1) << (8 * sizeof(T) - 1); break;                                      // -0.0
        case 5: b = 0; break;                                                                     // +0.0
        case 7: b = (sizeof(T) == 4 ? bits_t(0x7fa00000u) : bits_t(0x7ff4000000000000ull)) | bits_t(idx & 0xFFFF); break;   // signalling NaN + payload
        case 11: b = sizeof(T) == 4 ? bits_t(0xff800000u) : bits_t(0xfff0000000000000ull); break;   // -inf
        case 13: b = bits_t(1 + (idx & 0xFF)); break;                                              // subnormal
        case 17: b = sizeof(T) == 4 ? bits_t(0x7f7fffffu) : bits_t(0x7fefffffffffffffull); break;   // largest finite
        case 19: b = sizeof(T) == 4 ? bits_t(0xff7fffffu) : bits_t(0xffefffffffffffffull); break;   // lowest finite
        default: break;
    }
    T v;
    std::memcpy(&v, &b, sizeof v);
    return v;
}
template <class T>
uint64_t bits_of(T v)
{
    uint64_t u = 0;
    std::memcpy(&u, &v, sizeof v);
    return u;
}

template <class F>
std::string dump_of(const F & f)
{
    std::ostringstream os;
    f.dump(os);
    return os.str();
}

rc::Gen<std::vector<uint64_t>> gen_extents(size_t N, uint64_t max_side)
{
    auto side = rc::gen::map(rc::gen::tuple(in_range<unsigned>(0, 2), in_range<unsigned>(0, 9), in_range<int>(-1, 1), in_range<uint64_t>(1, max_side)), [max_side](std::tuple<unsigned, unsigned, int, uint64_t> t) {
        uint64_t v = std::get<0>(t) == 0 ? uint64_t(int64_t(uint64_t(1) << std::get<1>(t)) + std::get<2>(t)) : std::get<0>(t) == 1 ? 1 + std::get<3>(t) % 5 : std::get<3>(t);
        return std::min<uint64_t>(std::max<uint64_t>(v, 1), max_side);
    });
    return rc::gen::container<std::vector<uint64_t>>(N, side);
}

template <Lay L1, Lay L2, size_t N, class T, size_t M, class I = std::size_t>
struct Conv {
    using IV = cv::vector_d<I, N>;
    using A = cb::array<cv::vector_d<T, M>>;
    using B1 = layout_t<L1, IV, A>;
    using B2 = layout_t<L2, IV, A>;
    static std::string name()
    {
        return std::string("convert/") + lay_name(L1) + "->" + lay_name(L2) + "/N=" + std::to_string(N) + "/T=" + tname<T>() + "/M=" + std::to_string(M) + (std::is_same_v<I, std::size_t> ? "" : std::string("/I=") + tname<I>());
    }
    // converting INTO row-major hands the source view a size_t coordinate: only possible with size_t coordinates
    static constexpr bool can_convert_back = !(L1 == Lay::strided && !std::is_same_v<I, std::size_t>);

    template <class B>
    static covfie::field<B> build(const std::vector<uint64_t> & ext)
    {
        typename B::configuration_t e;
        uint64_t len = 1, side = uint64_t(ref::round_pow2(*std::max_element(ext.begin(), ext.end())));
        for (size_t k = 0; k < N; ++k) {
            e[k] = ext[k];
            len *= std::is_same_v<B, cb::strided<IV, A>> ? ext[k] : side;
        }
        return covfie::field<B>(pack(e, typename A::owning_data_t(len)));
    }
    template <class B>
    static Verdict holds(const char * what, const covfie::field<B> & f, const Case & c)
    {
        auto cfg = f.backend().get_configuration();
        for (size_t k = 0; k < N; ++k) {
            if (cfg[k] != c.ext[k]) {
                return std::string(what) + " reports extent " + std::to_string(cfg[k]) + " on axis " + std::to_string(k) + ", expected " + std::to_string(c.ext[k]);
            }
        }
        typename covfie::field<B>::view_t v(f);
        Verdict bad;
        for_box(c.ext, [&](const std::vector<uint64_t> & cc) {
            if (bad) {
                return;
            }
            typename covfie::field<B>::coordinate_t x;
            for (size_t k = 0; k < N; ++k) {
                x[k] = static_cast<std::decay_t<decltype(x[k])>>(cc[k]);
            }
            auto & r = v.at(x);
            uint64_t rk = uint64_t(ref::row_major(cc, c.ext));
            for (size_t j = 0; j < M; ++j) {
                T want = content<T>(c.seed, rk * M + j);
                if (bits_of(r[j]) != bits_of(want)) {
                    bad = std::string(what) + " holds " + bits_hex(r[j]) + " at " + cstr(cc) + " component " + std::to_string(j) + ", the source held " + bits_hex(want);
                    return;
                }
            }
        });
        return bad;
    }
    static Verdict run(const Case & c)
    {
        if ((L1 == Lay::morton_bmi2 || L2 == Lay::morton_bmi2) && !have_bmi2()) {
            return std::nullopt;
        }
        covfie::field<B1> src = build<B1>(c.ext);
        {
            typename covfie::field<B1>::view_t v(src);
            for_box(c.ext, [&](const std::vector<uint64_t> & cc) {
                typename covfie::field<B1>::coordinate_t x;
                for (size_t k = 0; k < N; ++k) {
                    x[k] = static_cast<std::decay_t<decltype(x[k])>>(cc[k]);
                }
                auto & r = v.at(x);
                uint64_t rk = uint64_t(ref::row_major(cc, c.ext));
                for (size_t j = 0; j < M; ++j) {
                    r[j] = content<T>(c.seed, rk * M + j);
                }
            });
        }
        const std::string d0 = dump_of(src);
        std::optional<covfie::field<B2>> dst;
        if (c.move) {
            covfie::field<B1> tmp(src);
            dst.emplace(std::move(tmp));
        } else {
            dst.emplace(src);
            if (dump_of(src) != d0) {
                return std::string("the source field changed during a copying conversion");
            }
        }
        if (auto b = holds("converted field", *dst, c)) {
            return b;
        }
        if (auto b = holds("source field after the conversion", src, c)) {
            return b;
        }
        if constexpr (can_convert_back) {
            covfie::field<B1> back(*dst);
            if (auto b = holds("field converted back", back, c)) {
                return b;
            }
            // byte-for-byte only where the storage has no padding cells (row-major): what padding cells of curve layouts
            // hold is not part of this property (values at every lattice coordinate were compared above)
            if (L1 == Lay::strided ? dump_of(back) != d0 : dump_of(back).size() != d0.size()) {
                return std::string("converting back does not reproduce the original dump");
            }
        }
        bool cube_pow2 = true;
        for (auto e : c.ext) {
            cube_pow2 = cube_pow2 && e == c.ext[0] && (e & (e - 1)) == 0;
        }
        Hasher h;
        h.vec(c.ext).pod(c.seed).pod(c.move);
        label(c.move ? "moving converting constructor" : "copying converting constructor");
        record(name(), L1 != L2 && !cube_pow2, h.h, [&] { return c.to_json(); });
        return std::nullopt;
    }
    static void campaign()
    {
        if ((L1 == Lay::morton_bmi2 || L2 == Lay::morton_bmi2) && !have_bmi2()) {
            note(name() + ": skipped, CPU without BMI2");
            return;
        }
        static const uint64_t Bq[] = {0, 40, 12, 6, 4}, Bt[] = {0, 256, 40, 12, 6};
        const uint64_t Bd = tier(Bq[N], Bt[N]);
        std::vector<uint64_t> e(N, 1);
        uint64_t n = 0;
        while (true) {
            run_explicit(name(), Case{e, 0x5eed + n, (n % 3) == 0, {}}, run);
            ++n;
            size_t k = 0;
            while (k < N && e[k] == Bd) {
                e[k++] = 1;
            }
            if (k == N) {
                break;
            }
            e[k]++;
        }
        note_exhaustive(name() + ": all " + std::to_string(n) + " extent vectors with extents in 1.." + std::to_string(Bd));
        const uint64_t ms = N == 1 ? 2000 : N == 2 ? 300 : N == 3 ? 40 : 14;
        rc_campaign<Case>(
            name(), tier(25, 800), 100, rc::gen::map(rc::gen::tuple(gen_extents(N, ms), rc::gen::arbitrary<uint64_t>(), rc::gen::arbitrary<bool>()), [](std::tuple<std::vector<uint64_t>, uint64_t, bool> t) {
                std::vector<uint64_t> ext = std::get<0>(t);
                if constexpr (sizeof(I) < 4) {
                    // the row-major layer (source, or the intermediate a curve-layout source is built from) computes its flat
                    // index in the coordinate type: with a 16-bit coordinate scalar a field has at most 2^16 cells (the property
                    // lists size_t coordinates for conversions; the narrow instantiations exist for the curve layouts' own arithmetic)
                    uint64_t cells = 1;
                    for (auto x : ext) {
                        cells *= x;
                    }
                    while (cells > (uint64_t(1) << (8 * sizeof(I)))) {
                        size_t k = size_t(std::max_element(ext.begin(), ext.end()) - ext.begin());
                        cells /= ext[k];
                        ext[k] = (ext[k] + 1) / 2;
                        cells *= ext[k];
                    }
                }
                return Case{ext, std::get<1>(t), std::get<2>(t), {}};
            }), run
        );
    }
    static void reg()
    {
        add_inst(name(), campaign, [](const json & j) { return run(Case::from_json(j)); });
    }
};

// conversion that also changes the stored scalar type: every value is converted element-wise (static_cast)
template <Lay L1, Lay L2, size_t N, class T1, class T2, size_t M>
struct ConvX {
    using IV = cv::vector_d<std::size_t, N>;
    using B1 = layout_t<L1, IV, cb::array<cv::vector_d<T1, M>>>;
    using B2 = layout_t<L2, IV, cb::array<cv::vector_d<T2, M>>>;
    static std::string name() { return std::string("convert/") + lay_name(L1) + "<" + tname<T1>() + "> -> " + lay_name(L2) + "<" + tname<T2>() + ">/N=" + std::to_string(N) + "/M=" + std::to_string(M); }
    static T1 value(uint64_t seed, uint64_t idx)
    {
        // finite, distinct, many of them not representable in the narrower type
        uint64_t h = mix(seed, idx);
        T1 v = T1(double(int64_t(h % 2000001) - 1000000) / 7.0 + double(idx)) * ((h >> 40) % 5 == 0 ? T1(1e-3) : T1(1));
        if ((idx + seed) % 19 == 4) {
            v = -T1(0);
        }
        return v;
    }
    static Verdict run(const Case & c)
    {
        if ((L1 == Lay::morton_bmi2 || L2 == Lay::morton_bmi2) && !have_bmi2()) {
            return std::nullopt;
        }
        covfie::field<B1> src = Conv<L1, L1, N, T1, M>::template build<B1>(c.ext);
        {
            typename covfie::field<B1>::view_t v(src);
            for_box(c.ext, [&](const std::vector<uint64_t> & cc) {
                typename covfie::field<B1>::coordinate_t x;
                for (size_t k = 0; k < N; ++k) {
                    x[k] = cc[k];
                }
                uint64_t rk = uint64_t(ref::row_major(cc, c.ext));
                for (size_t j = 0; j < M; ++j) {
                    v.at(x)[j] = value(c.seed, rk * M + j);
                }
            });
        }
        covfie::field<B2> dst(src);
        auto cfg = dst.backend().get_configuration();
        for (size_t k = 0; k < N; ++k) {
            if (cfg[k] != c.ext[k]) {
                return "converted field reports extent " + std::to_string(cfg[k]) + " on axis " + std::to_string(k);
            }
        }
        typename covfie::field<B2>::view_t dv(dst);
        Verdict bad;
        for_box(c.ext, [&](const std::vector<uint64_t> & cc) {
            if (bad) {
                return;
            }
            typename covfie::field<B2>::coordinate_t x;
            for (size_t k = 0; k < N; ++k) {
                x[k] = cc[k];
            }
            uint64_t rk = uint64_t(ref::row_major(cc, c.ext));
            for (size_t j = 0; j < M; ++j) {
                T2 want = static_cast<T2>(value(c.seed, rk * M + j));
                if (bits_of(dv.at(x)[j]) != bits_of(want)) {
                    bad = "converted field holds " + ld_str(dv.at(x)[j]) + " at " + cstr(cc) + " component " + std::to_string(j) + ", the source value converts to " + ld_str(want);
                    return;
                }
            }
        });
        Hasher h;
        h.vec(c.ext).pod(c.seed);
        label("conversion that changes the stored scalar type");
        record(name(), true, h.h, [&] { return c.to_json(); });
        return bad;
    }
    static void campaign()
    {
        if ((L1 == Lay::morton_bmi2 || L2 == Lay::morton_bmi2) && !have_bmi2()) {
            return;
        }
        const uint64_t ms = N == 1 ? 500 : N == 2 ? 60 : N == 3 ? 14 : 7;
        rc_campaign<Case>(
            name(), tier(150, 5000), 100, rc::gen::map(rc::gen::pair(gen_extents(N, ms), rc::gen::arbitrary<uint64_t>()), [](std::pair<std::vector<uint64_t>, uint64_t> t) { return Case{t.first, t.second, false, {}}; }), run
        );
    }
    static void reg()
    {
        add_inst(name(), campaign, [](const json & j) { return run(Case::from_json(j)); });
    }
};

// whole-stack conversions affine<I1<L1<array>>> -> affine<I2<L2<array>>>
enum class Ip { nn, lin };
template <Ip I, class B, size_t N>
struct interp_of {
    using type = cb::nearest_neighbour<B, cv::vector_d<float, N>>;
};
template <class B, size_t N>
struct interp_of<Ip::lin, B, N> {
    using type = cb::linear<B, cv::vector_d<float, N>>;
};
template <Ip I1, Lay L1, Ip I2, Lay L2, size_t N, class T, size_t M>
struct Stack {
    using IV = cv::vector_d<std::size_t, N>;
    using A = cb::array<cv::vector_d<T, M>>;
    using S1 = layout_t<L1, IV, A>;
    using S2 = layout_t<L2, IV, A>;
    using B1 = cb::affine<typename interp_of<I1, S1, N>::type>;
    using B2 = cb::affine<typename interp_of<I2, S2, N>::type>;
    using C = Conv<L1, L2, N, T, M>;
    static std::string name()
    {
        return std::string("stack/affine<") + (I1 == Ip::nn ? "nn<" : "linear<") + lay_name(L1) + ">> -> affine<" + (I2 == Ip::nn ? "nn<" : "linear<") + lay_name(L2) + ">>/N=" + std::to_string(N) + "/T=" + tname<T>() + "/M=" + std::to_string(M);
    }
    template <class SB>
    static Verdict storage_holds(const char * what, const typename SB::owning_data_t & o, const Case & c)
    {
        auto cfg = o.get_configuration();
        for (size_t k = 0; k < N; ++k) {
            if (cfg[k] != c.ext[k]) {
                return std::string(what) + ": storage layer reports extent " + std::to_string(cfg[k]) + " on axis " + std::to_string(k);
            }
        }
        typename SB::non_owning_data_t v(o);
        Verdict bad;
        for_box(c.ext, [&](const std::vector<uint64_t> & cc) {
            if (bad) {
                return;
            }
            typename SB::contravariant_input_t::vector_t x;
            for (size_t k = 0; k < N; ++k) {
                x[k] = static_cast<std::decay_t<decltype(x[k])>>(cc[k]);
            }
            auto & r = v.at(x);
            uint64_t rk = uint64_t(ref::row_major(cc, c.ext));
            for (size_t j = 0; j < M; ++j) {
                if (bits_of(r[j]) != bits_of(content<T>(c.seed, rk * M + j))) {
                    bad = std::string(what) + " holds " + bits_hex(r[j]) + " at " + cstr(cc) + ", the source held " + bits_hex(content<T>(c.seed, rk * M + j));
                    return;
                }
            }
        });
        return bad;
    }
    template <class BB>
    static Verdict matrix_is(const char * what, const covfie::field<BB> & f, const Case & c)
    {
        auto m = f.backend().get_configuration();
        for (size_t i = 0; i < N; ++i) {
            for (size_t j = 0; j <= N; ++j) {
                if (bits_of(float(m(i, j))) != c.matrix[i * (N + 1) + j]) {
                    return std::string(what) + ": affine matrix entry (" + std::to_string(i) + "," + std::to_string(j) + ") is " + bits_hex(float(m(i, j))) + ", configured " + bits_hex(uint32_t(c.matrix[i * (N + 1) + j]));
                }
            }
        }
        return std::nullopt;
    }
    // "holds the same value at every lattice coordinate", asked of the field itself: under the affine map x -> x + t
    // (identity plus an integer translation, exact in float) a lookup at cc - t reaches lattice coordinate cc. A
    // nearest-neighbour stack returns the stored cell; a linear stack returns it as 1*p0 + 0*p1 + ..., which is exact
    // whenever all 2^N corners exist and are finite in the layer's arithmetic type, the coordinate scalar (float here;
    // a stored double is narrowed to it first) -- compared by value: -0.0 + 0.0 is +0.0.
    template <Ip I, class BB>
    static Verdict lookups_hold(const char * what, const covfie::field<BB> & f, const Case & c, const std::array<float, N> & t, uint64_t & looked)
    {
        typename covfie::field<BB>::view_t v(f);
        Verdict bad;
        for_box(c.ext, [&](const std::vector<uint64_t> & cc) {
            if (bad) {
                return;
            }
            bool ok = true;
            if (I == Ip::lin) {
                for (size_t k = 0; k < N; ++k) {
                    ok = ok && cc[k] + 1 < c.ext[k];
                }
                for (uint64_t corner = 0; ok && corner < (uint64_t(1) << N); ++corner) {
                    std::vector<uint64_t> q(cc);
                    for (size_t k = 0; k < N; ++k) {
                        q[k] += (corner >> k) & 1;
                    }
                    uint64_t rk = uint64_t(ref::row_major(q, c.ext));
                    for (size_t j = 0; j < M; ++j) {
                        ok = ok && std::isfinite(float(content<T>(c.seed, rk * M + j)));
                    }
                }
            }
            if (!ok) {
                return;
            }
            typename covfie::field<BB>::coordinate_t x;
            for (size_t k = 0; k < N; ++k) {
                x[k] = float(cc[k]) - t[k];
            }
            auto r = v.at(x);
            ++looked;
            uint64_t rk = uint64_t(ref::row_major(cc, c.ext));
            for (size_t j = 0; j < M; ++j) {
                T want = content<T>(c.seed, rk * M + j);
                T got = r[j];
                // the linear layer blends in its coordinate scalar type (float here): a stored double passes through float
                bool same = I == Ip::nn ? (bits_of(got) == bits_of(want) || (std::isnan(got) && std::isnan(want))) : got == T(float(want));
                if (!same) {
                    bad = std::string(what) + ": lookup at lattice coordinate " + cstr(cc) + " yields " + bits_hex(got) + " in component " + std::to_string(j) + ", the cell holds " + bits_hex(want);
                    return;
                }
            }
        });
        return bad;
    }
    static Verdict run(const Case & c)
    {
        if ((L1 == Lay::morton_bmi2 || L2 == Lay::morton_bmi2) && !have_bmi2()) {
            return std::nullopt;
        }
        covfie::field<S1> st = C::template build<S1>(c.ext);
        {
            typename covfie::field<S1>::view_t v(st);
            for_box(c.ext, [&](const std::vector<uint64_t> & cc) {
                typename covfie::field<S1>::coordinate_t x;
                for (size_t k = 0; k < N; ++k) {
                    x[k] = static_cast<std::decay_t<decltype(x[k])>>(cc[k]);
                }
                auto & r = v.at(x);
                uint64_t rk = uint64_t(ref::row_major(cc, c.ext));
                for (size_t j = 0; j < M; ++j) {
                    r[j] = content<T>(c.seed, rk * M + j);
                }
            });
        }
        typename B1::configuration_t m;
        for (size_t i = 0; i < N; ++i) {
            for (size_t j = 0; j <= N; ++j) {
                uint32_t b = uint32_t(c.matrix[i * (N + 1) + j]);
                float fv;
                std::memcpy(&fv, &b, 4);
                m(i, j) = fv;
            }
        }
        covfie::field<B1> src(pack(m, std::monostate{}, typename S1::owning_data_t(st.backend())));
        const std::string d0 = dump_of(src);
        std::optional<covfie::field<B2>> dst;
        if (c.move) {
            covfie::field<B1> tmp(src);
            dst.emplace(std::move(tmp));
        } else {
            dst.emplace(src);
            if (dump_of(src) != d0) {
                return std::string("the source field changed during a copying conversion");
            }
        }
        if (auto b = matrix_is("converted field", *dst, c)) {
            return b;
        }
        if (auto b = storage_holds<S2>("converted field", dst->backend().get_backend().get_backend(), c)) {
            return b;
        }
        if (auto b = storage_holds<S1>("source after conversion", src.backend().get_backend().get_backend(), c)) {
            return b;
        }
        covfie::field<B1> back(*dst);
        if (auto b = matrix_is("field converted back", back, c)) {
            return b;
        }
        if (L1 == Lay::strided ? dump_of(back) != d0 : dump_of(back).size() != d0.size()) {
            return std::string("converting the whole stack back does not reproduce the original dump");
        }
        if (auto b = storage_holds<S1>("stack converted back", back.backend().get_backend().get_backend(), c)) {
            return b;
        }
        {
            // the same conversion under a map that reaches the lattice: lookups through the converted stack and through the stack converted back
            typename B1::configuration_t mt;
            std::array<float, N> t;
            for (size_t i = 0; i < N; ++i) {
                for (size_t j = 0; j < N; ++j) {
                    mt(i, j) = i == j ? 1.f : 0.f;
                }
                t[i] = float(mix(c.seed, 77 + i) % 3);
                mt(i, N) = t[i];
            }
            covfie::field<B1> src2(pack(mt, std::monostate{}, typename S1::owning_data_t(st.backend())));
            covfie::field<B2> dst2(src2);
            uint64_t looked = 0;
            if (auto b = lookups_hold<I2>("converted field", dst2, c, t, looked)) {
                return b;
            }
            covfie::field<B1> back2(dst2);
            if (auto b = lookups_hold<I1>("field converted back", back2, c, t, looked)) {
                return b;
            }
            if (looked) {
                label("whole-stack conversion with lookups at lattice coordinates through both stacks");
            }
        }
        Hasher h;
        h.vec(c.ext).pod(c.seed).pod(c.move).vec(c.matrix);
        bool cube_pow2 = true;
        for (auto e : c.ext) {
            cube_pow2 = cube_pow2 && e == c.ext[0] && (e & (e - 1)) == 0;
        }
        label("whole-stack conversion");
        record(name(), (L1 != L2 || I1 != I2) && !cube_pow2, h.h, [&] { return c.to_json(); });
        return std::nullopt;
    }
    static void campaign()
    {
        if ((L1 == Lay::morton_bmi2 || L2 == Lay::morton_bmi2) && !have_bmi2()) {
            note(name() + ": skipped, CPU without BMI2");
            return;
        }
        const uint64_t ms = N == 1 ? 300 : N == 2 ? 60 : N == 3 ? 14 : 7;
        auto fbits = rc::gen::map(rc::gen::arbitrary<uint32_t>(), [](uint32_t b) { return uint64_t(b); });
        rc_campaign<Case>(
            name(),
            tier(120, 4000),
            100,
            rc::gen::map(
                rc::gen::tuple(gen_extents(N, ms), rc::gen::arbitrary<uint64_t>(), rc::gen::arbitrary<bool>(), rc::gen::container<std::vector<uint64_t>>(N * (N + 1), fbits)),
                [](std::tuple<std::vector<uint64_t>, uint64_t, bool, std::vector<uint64_t>> t) { return Case{std::get<0>(t), std::get<1>(t), std::get<2>(t), std::get<3>(t)}; }
            ),
            run
        );
    }
    static void reg()
    {
        add_inst(name(), campaign, [](const json & j) { return run(Case::from_json(j)); });
    }
};

#if VF_GROUP == 4
// host array -> CUDA device array storage, exercised on the host under the runtime shim (reduced assurance)
template <size_t N, class T, size_t M>
struct ToDevice {
    using IV = cv::vector_d<std::size_t, N>;
    using A = cb::array<cv::vector_d<T, M>>;
    using D = cb::cuda_device_array<cv::vector_d<T, M>>;
    using B1 = cb::strided<IV, A>;
    using B2 = cb::strided<IV, D>;
    static std::string name() { return std::string("convert/strided<array> -> strided<cuda_device_array> (host shim)/N=") + std::to_string(N) + "/T=" + tname<T>() + "/M=" + std::to_string(M); }
    static Verdict run(const Case & c)
    {
        covfie::field<B1> src = Conv<Lay::strided, Lay::strided, N, T, M>::template build<B1>(c.ext);
        {
            typename covfie::field<B1>::view_t v(src);
            for_box(c.ext, [&](const std::vector<uint64_t> & cc) {
                typename covfie::field<B1>::coordinate_t x;
                for (size_t k = 0; k < N; ++k) {
                    x[k] = static_cast<std::decay_t<decltype(x[k])>>(cc[k]);
                }
                auto & r = v.at(x);
                uint64_t rk = uint64_t(ref::row_major(cc, c.ext));
                for (size_t j = 0; j < M; ++j) {
                    r[j] = content<T>(c.seed, rk * M + j);
                }
            });
        }
        const std::string d0 = dump_of(src);
        covfie::field<B2> dev(src);
        if (dump_of(src) != d0) {
            return std::string("the host field changed during the conversion to device storage");
        }
        auto cfg = dev.backend().get_configuration();
        typename covfie::field<B2>::view_t dv(dev);
        Verdict bad;
        for (size_t k = 0; k < N; ++k) {
            if (cfg[k] != c.ext[k]) {
                return "device field reports extent " + std::to_string(cfg[k]) + " on axis " + std::to_string(k);
            }
        }
        for_box(c.ext, [&](const std::vector<uint64_t> & cc) {
            if (bad) {
                return;
            }
            typename covfie::field<B2>::coordinate_t x;
            for (size_t k = 0; k < N; ++k) {
                x[k] = static_cast<std::decay_t<decltype(x[k])>>(cc[k]);
            }
            auto & r = dv.at(x);
            uint64_t rk = uint64_t(ref::row_major(cc, c.ext));
            for (size_t j = 0; j < M; ++j) {
                if (bits_of(r[j]) != bits_of(content<T>(c.seed, rk * M + j))) {
                    bad = "device field holds " + bits_hex(r[j]) + " at " + cstr(cc) + ", the host field held " + bits_hex(content<T>(c.seed, rk * M + j));
                    return;
                }
            }
        });
        Hasher h;
        h.vec(c.ext).pod(c.seed);
        label("host array -> device array under the CUDA runtime shim");
        record(name(), true, h.h, [&] { return c.to_json(); });
        return bad;
    }
    static void campaign()
    {
        const uint64_t ms = N == 1 ? 500 : N == 2 ? 60 : N == 3 ? 14 : 7;
        rc_campaign<Case>(
            name(), tier(150, 5000), 100, rc::gen::map(rc::gen::pair(gen_extents(N, ms), rc::gen::arbitrary<uint64_t>()), [](std::pair<std::vector<uint64_t>, uint64_t> t) { return Case{t.first, t.second, false, {}}; }), run
        );
    }
    static void reg()
    {
        add_inst(name(), campaign, [](const json & j) { return run(Case::from_json(j)); });
    }
};
#endif

template <size_t N, class T1, size_t M1, class T2, size_t M2>
void reg_pairs_no_hilbert()
{
    Conv<Lay::strided, Lay::strided, N, T1, M1>::reg();
    Conv<Lay::strided, Lay::morton_bmi2, N, T2, M2>::reg();
    Conv<Lay::strided, Lay::morton_port, N, T1, M1>::reg();
    Conv<Lay::morton_bmi2, Lay::strided, N, T2, M2>::reg();
    Conv<Lay::morton_bmi2, Lay::morton_bmi2, N, T1, M1>::reg();
    Conv<Lay::morton_bmi2, Lay::morton_port, N, T2, M2>::reg();
    Conv<Lay::morton_port, Lay::strided, N, T1, M1>::reg();
    Conv<Lay::morton_port, Lay::morton_bmi2, N, T2, M2>::reg();
    Conv<Lay::morton_port, Lay::morton_port, N, T1, M1>::reg();
}

void register_all()
{
#if VF_GROUP == 0
    reg_pairs_no_hilbert<1, float, 1, double, 2>();
    reg_pairs_no_hilbert<3, double, 3, float, 1>();
#elif VF_GROUP == 1
    reg_pairs_no_hilbert<2, double, 1, float, 3>();
    Conv<Lay::hilbert, Lay::hilbert, 2, float, 2>::reg();
    Conv<Lay::hilbert, Lay::strided, 2, double, 3>::reg();
    Conv<Lay::hilbert, Lay::morton_bmi2, 2, float, 1>::reg();
    Conv<Lay::hilbert, Lay::morton_port, 2, double, 4>::reg();
    Conv<Lay::strided, Lay::hilbert, 2, float, 4>::reg();
    Conv<Lay::morton_bmi2, Lay::hilbert, 2, double, 2>::reg();
    Conv<Lay::morton_port, Lay::hilbert, 2, float, 3>::reg();
    // narrower coordinate scalars (curve <-> curve and row-major -> curve; extents beyond 2^(bits/N))
    Conv<Lay::morton_port, Lay::morton_bmi2, 2, float, 1, uint16_t>::reg();
    Conv<Lay::morton_bmi2, Lay::morton_port, 2, double, 2, uint16_t>::reg();
    Conv<Lay::strided, Lay::morton_bmi2, 2, float, 2, uint16_t>::reg();
    Conv<Lay::strided, Lay::hilbert, 2, double, 1, unsigned>::reg();
    Conv<Lay::hilbert, Lay::morton_port, 2, float, 1, int>::reg();
#elif VF_GROUP == 2
    reg_pairs_no_hilbert<4, float, 4, double, 1>();
#elif VF_GROUP == 3
    Stack<Ip::nn, Lay::strided, Ip::lin, Lay::morton_port, 3, float, 3>::reg();
    Stack<Ip::lin, Lay::strided, Ip::nn, Lay::morton_bmi2, 3, float, 3>::reg();
    Stack<Ip::lin, Lay::morton_port, Ip::lin, Lay::strided, 3, double, 1>::reg();
    Stack<Ip::nn, Lay::morton_bmi2, Ip::nn, Lay::morton_port, 2, float, 2>::reg();
    Stack<Ip::nn, Lay::strided, Ip::nn, Lay::hilbert, 2, double, 2>::reg();
    Stack<Ip::lin, Lay::hilbert, Ip::nn, Lay::strided, 2, float, 1>::reg();
    Stack<Ip::lin, Lay::strided, Ip::lin, Lay::strided, 1, double, 3>::reg();
    Stack<Ip::nn, Lay::morton_port, Ip::lin, Lay::morton_bmi2, 4, float, 1>::reg();
    Stack<Ip::nn, Lay::strided, Ip::lin, Lay::strided, 3, float, 3>::reg();
    ConvX<Lay::strided, Lay::morton_port, 2, float, double, 2>::reg();
    ConvX<Lay::morton_bmi2, Lay::strided, 3, double, float, 3>::reg();
    ConvX<Lay::strided, Lay::strided, 1, float, double, 1>::reg();
    ConvX<Lay::hilbert, Lay::strided, 2, double, float, 4>::reg();
    ConvX<Lay::strided, Lay::hilbert, 2, float, double, 3>::reg();
#elif VF_GROUP == 4
    ToDevice<1, float, 1>::reg();
    ToDevice<2, double, 2>::reg();
    ToDevice<3, float, 3>::reg();
    ToDevice<4, double, 4>::reg();
#endif
}
}   // namespace
VF_MAIN(register_all)
