// C17 (helper part): make_parameter_pack_for<F>(a0, ..., a_{d-1}) assigns its i-th
// argument to the i-th layer counted from the outside, for depth 1..10.
// Stacks are built from light layers (clamp / backup / shuffle / dereference / cast
// over identity); every clamp / backup receives a generated, pairwise different box.
#include "common.hpp"
#include "cov.hpp"

namespace {
using namespace vf;
using ID = cb::identity<cv::float1>;

struct Case {
    std::vector<int> v;   // one generated integer per layer (from the outside)
    json to_json() const { return json{{"per_layer_values", v}}; }
    static Case from_json(const json & j) { return Case{j.at("per_layer_values").get<std::vector<int>>()}; }
};

// configuration of layer type B derived from one integer, and the reverse check
template <class B>
typename B::configuration_t conf_from(int v)
{
    using C = typename B::configuration_t;
    if constexpr (std::is_same_v<C, std::monostate>) {
        return {};
    } else if constexpr (requires(C c) { c.min; }) {
        C c;
        using S = std::decay_t<decltype(c.min[0])>;
        const int w = std::is_unsigned_v<S> ? (v < 0 ? -v : v) : v;
        c.min[0] = S(w);
        c.max[0] = S(w) + S(1);
        if constexpr (requires { c.default_value; }) {
            c.default_value[0] = float(-v);
        }
        return c;
    } else if constexpr (requires(C c) { c(0, 0); }) {
        C c;
        c(0, 0) = 1.f;
        c(0, 1) = float(v);
        return c;
    } else {
        C c;
        c[0] = std::size_t(v < 0 ? -v : v) % 9 + 1;
        return c;
    }
}
template <class B>
Verdict conf_is(const typename B::configuration_t & c, int v, size_t layer)
{
    using C = typename B::configuration_t;
    bool ok = true;
    long double seen = 0;
    if constexpr (std::is_same_v<C, std::monostate>) {
    } else if constexpr (requires { c.min; }) {
        using S = std::decay_t<decltype(c.min[0])>;
        const int w = std::is_unsigned_v<S> ? (v < 0 ? -v : v) : v;
        ok = c.min[0] == S(w) && c.max[0] == S(w) + S(1);
        seen = c.min[0];
        if constexpr (requires { c.default_value; }) {
            ok = ok && c.default_value[0] == float(-v);
        }
    } else if constexpr (requires { c(0, 0); }) {
        ok = c(0, 0) == 1.f && c(0, 1) == float(v);
        seen = c(0, 1);
    } else {
        ok = c[0] == std::size_t(v < 0 ? -v : v) % 9 + 1;
        seen = c[0];
    }
    if (!ok) {
        return "layer " + std::to_string(layer) + " from the outside reports a configuration carrying " + ld_str(seen) + ", argument " + std::to_string(layer) + " was derived from " + std::to_string(v);
    }
    return std::nullopt;
}

template <class B, size_t K = 0>
Verdict walk(const typename B::owning_data_t & o, const Case & c)
{
    if (auto b = conf_is<B>(o.get_configuration(), c.v[K], K)) {
        return b;
    }
    if constexpr (!B::is_initial) {
        return walk<typename B::backend_t, K + 1>(o.get_backend(), c);
    } else {
        return std::nullopt;
    }
}

template <class B, class... Ls>
struct layers_of {
    using type = std::tuple<Ls..., B>;
};
template <class B, bool init = B::is_initial>
struct collect;
template <class B>
struct collect<B, true> {
    template <class... Ls>
    using with = std::tuple<Ls..., B>;
};
template <class B>
struct collect<B, false> {
    template <class... Ls>
    using with = typename collect<typename B::backend_t>::template with<Ls..., B>;
};

template <class B>
struct Helper {
    using F = covfie::field<B>;
    using layers = typename collect<B>::template with<>;
    static constexpr size_t D = std::tuple_size_v<layers>;
    static std::string name_;
    static std::string name() { return name_; }
    template <size_t... Is>
    static F build(const Case & c, std::index_sequence<Is...>)
    {
        return F(covfie::make_parameter_pack_for<F>(conf_from<std::tuple_element_t<Is, layers>>(c.v[Is])...));
    }
    static Verdict run(const Case & c)
    {
        F f = build(c, std::make_index_sequence<D>{});
        bool twins = false;
        for (size_t a = 0; a < c.v.size(); ++a) {
            for (size_t b = a + 1; b < c.v.size(); ++b) {
                twins = twins || c.v[a] != c.v[b];
            }
        }
        Hasher h;
        h.vec(c.v);
        record(name(), D >= 3 && twins, h.h, [&] { return c.to_json(); });
        return walk<B>(f.backend(), c);
    }
    static void reg(const std::string & n)
    {
        name_ = "make_parameter_pack_for/depth=" + std::to_string(D) + "/" + n;
        add_inst(
            name_,
            [] {
                auto g = rc::gen::map(rc::gen::container<std::vector<int>>(D, in_range<int>(-1000, 1000)), [](std::vector<int> v) { return Case{v}; });
                rc_campaign<Case>(name(), tier(300, 20000), 100, g, run);
            },
            [](const json & j) { return run(Case::from_json(j)); }
        );
    }
};
template <class B>
std::string Helper<B>::name_;

template <class B>
using CL = cb::clamp<B>;
template <class B>
using BK = cb::backup<B>;
template <class B>
using DR = cb::dereference<B>;
template <class B>
using SH = cb::shuffle<B, std::index_sequence<0>>;
template <class B>
using CC = cb::covariant_cast<float, B>;

void register_all()
{
    Helper<ID>::reg("identity");
    Helper<CL<ID>>::reg("clamp");
    Helper<CL<BK<ID>>>::reg("clamp<backup>");
    Helper<CL<CL<CL<ID>>>>::reg("clamp^3");
    Helper<BK<CL<DR<BK<ID>>>>>::reg("backup<clamp<deref<backup>>>");
    Helper<CL<SH<CL<CC<CL<ID>>>>>>::reg("clamp<shuffle<clamp<cast<clamp>>>>");
    Helper<CL<CL<BK<BK<CL<CL<ID>>>>>>>::reg("cl cl bk bk cl cl");
    Helper<BK<CL<DR<CL<SH<BK<CL<ID>>>>>>>>::reg("bk cl dr cl sh bk cl");
    Helper<CL<CL<CL<CL<CL<CL<CL<CL<ID>>>>>>>>>::reg("clamp^8");
    Helper<CL<BK<CL<BK<CL<BK<CL<BK<CL<ID>>>>>>>>>>::reg("(clamp<backup)^4<clamp");
    // affine / storage order layers inside the helper as well
    Helper<cb::affine<cb::nearest_neighbour<CL<cb::strided<cv::size1, cb::array<cv::float1>>>, cv::float1>>>::reg("affine<nn<clamp<strided<array>>>>");
}
}   // namespace
VF_MAIN(register_all)
