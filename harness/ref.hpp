// Reference definitions used as oracles. No covfie include: nothing here shares
// code with the library.
#pragma once
#include <cstdint>
#include <vector>

namespace ref {
typedef unsigned __int128 u128;

// least power of two >= i (i >= 1), by bit counting
inline u128 round_pow2(uint64_t i)
{
    if (i <= 1) {
        return 1;
    }
    return u128(1) << (64 - __builtin_clzll(i - 1));
}

// b^e mod 2^w by repeated multiplication (the definition); e must be small
inline uint64_t ipow_naive(uint64_t b, uint64_t e, unsigned w)
{
    const u128 mask = (w == 64) ? u128(~uint64_t(0)) : ((u128(1) << w) - 1);
    u128 r = 1;
    for (uint64_t k = 0; k < e; ++k) {
        r = (r * b) & mask;
    }
    return uint64_t(r);
}

// b^e mod 2^w for any e: left-to-right binary exponentiation in 128-bit
// arithmetic (the library works right-to-left in the native type); the
// harness cross-checks this against ipow_naive for every e <= 64.
inline uint64_t ipow_mod(uint64_t b, uint64_t e, unsigned w)
{
    const u128 mask = (w == 64) ? u128(~uint64_t(0)) : ((u128(1) << w) - 1);
    u128 r = 1;
    for (int bit = 63; bit >= 0; --bit) {
        r = (r * r) & mask;
        if ((e >> bit) & 1) {
            r = (r * (b & mask)) & mask;
        }
    }
    return uint64_t(r);
}

// row-major rank: sum_k c_k * prod_{l>k} N_l
inline u128 row_major(const std::vector<uint64_t> & c, const std::vector<uint64_t> & ext)
{
    u128 r = 0;
    for (size_t k = 0; k < c.size(); ++k) {
        u128 t = c[k];
        for (size_t l = k + 1; l < c.size(); ++l) {
            t *= ext[l];
        }
        r += t;
    }
    return r;
}

// Morton: bit b of coordinate j goes to bit b*N + j (first coordinate least significant)
inline u128 morton(const std::vector<uint64_t> & c)
{
    const size_t N = c.size();
    u128 r = 0;
    for (unsigned b = 0; b < 64; ++b) {
        for (size_t j = 0; j < N; ++j) {
            if ((c[j] >> b) & 1) {
                unsigned pos = b * N + j;
                if (pos < 128) {
                    r |= u128(1) << pos;
                }
            }
        }
    }
    return r;
}
}   // namespace ref
