"""C13: every well-kinded composition supports the whole field API; ill-kinded ones are rejected at compile time.

quick:    the zoo cover (one TU per stack, compiled for real, the whole API instantiated by the adapter and executed
          by zoo mode C13) + the ill-kinded catalogue with well-kinded twins + converting construction for layout pairs.
thorough: additionally every kind sequence up to depth 5 with 4 seeded assignments of (N, M, scalars, permutation),
          10 stacks per TU under g++ -fsyntax-only with the explicit API template (harness/api_all.hpp); a failing
          TU is bisected down to the single stack.
"""
import json
import os
import random
import time

from . import core, e1, e3, stackgen, zoo

HDR = '#include "api_all.hpp"\n'


def api_tu(types):
    return HDR + "".join(f"VF_USE({t})\n" for t in types)


def ill_kinded_catalogue(seed):
    """(name, well-kinded twin TU, ill-kinded TU) with N, M and scalars drawn from the seed."""
    rng = random.Random(f"{seed}:C13:ill")
    out = []
    V = "covfie::vector::vector_d"
    B = "covfie::backend::"

    def use(t):
        return HDR + f"VF_USE({t})\n"

    for rep in range(3):
        n = rng.choice([1, 2, 3, 4])
        m = rng.choice([1, 2, 3, 4])
        r = rng.choice(["float", "double"])
        t = rng.choice(["float", "double"])
        i = rng.choice(["std::size_t", "unsigned int", "int"])
        it = rng.choice(["int", "long", "unsigned int"])
        st = f"{B}strided<{V}<{i},{n}>,{B}array<{V}<{t},{m}>>>"
        n2 = n % 4 + 1
        out.append((f"linear over integer-valued backend [{rep}]",
                    use(f"{B}linear<{B}covariant_cast<{t},{B}identity<{V}<{it},{n}>>>,{V}<{r},{n}>>"),
                    use(f"{B}linear<{B}identity<{V}<{it},{n}>>,{V}<{r},{n}>>")))
        out.append((f"linear with integer coordinate scalar [{rep}]", use(f"{B}linear<{st},{V}<{r},{n}>>"), use(f"{B}linear<{st},{V}<{it},{n}>>")))
        out.append((f"linear with wrong coordinate size [{rep}]", use(f"{B}linear<{st},{V}<{r},{n}>>"), use(f"{B}linear<{st},{V}<{r},{n2}>>")))
        out.append((f"nearest_neighbour with integer coordinate scalar [{rep}]", use(f"{B}nearest_neighbour<{st},{V}<{r},{n}>>"), use(f"{B}nearest_neighbour<{st},{V}<{it},{n}>>")))
        out.append((f"nearest_neighbour with wrong coordinate size [{rep}]", use(f"{B}nearest_neighbour<{st},{V}<{r},{n}>>"), use(f"{B}nearest_neighbour<{st},{V}<{r},{n2}>>")))
        hn = rng.choice([1, 3, 4])
        out.append((f"hilbert with N={hn} [{rep}]", use(f"{B}hilbert<{V}<{i},2>,{B}array<{V}<{t},{m}>>>"), use(f"{B}hilbert<{V}<{i},{hn}>,{B}array<{V}<{t},{m}>>>")))
        big = rng.choice([6, 7])
        out.append((f"view larger than 256 bytes (affine over {big}-D double) [{rep}]",
                    use(f"{B}affine<{B}identity<{V}<double,4>>>"), use(f"{B}affine<{B}identity<{V}<double,{big}>>>")))
        out.append((f"array::array<T,0> [{rep}]",
                    '#include "cov.hpp"\n' + f"covfie::array::array<{t},{m}> x;\n", '#include "cov.hpp"\n' + f"covfie::array::array<{t},0> x;\n"))
        out.append((f"vector::scalar_d of a size-{n + 1} descriptor [{rep}]",
                    '#include "cov.hpp"\n' + f"covfie::vector::scalar_d<{V}<{t},1>>::vector_t x;\n", '#include "cov.hpp"\n' + f"covfie::vector::scalar_d<{V}<{t},{n + 1}>>::vector_t x;\n"))
        args_ok = ",".join(["1.f"] * n)
        args_bad = ",".join(["1.f"] * (n + rng.choice([-1, 1]) if n > 1 else n + 1))
        fn = rng.choice(["translation", "scaling"])
        out.append((f"affine::{fn} with a wrong argument count [{rep}]",
                    '#include "cov.hpp"\n' + f"auto x = covfie::algebra::affine<{n},{r}>::{fn}({args_ok});\n",
                    '#include "cov.hpp"\n' + f"auto x = covfie::algebra::affine<{n},{r}>::{fn}({args_bad});\n"))
    return out


def conversion_tu(seed):
    """Converting construction between compatible stacks (the C05 family) must compile."""
    rng = random.Random(f"{seed}:C13:conv")
    B = "covfie::backend::"
    V = "covfie::vector::vector_d"
    lines = ['#include "cov.hpp"\n', "template <class A, class B> void conv(const covfie::field<A> & a) { covfie::field<B> b(a); covfie::field<A> tmp(a); covfie::field<B> c(std::move(tmp)); (void)b; (void)c; }\n"]
    n_pairs = 0
    for n in (1, 2, 3, 4):
        t = rng.choice(["float", "double"])
        m = rng.choice([1, 2, 3, 4])
        arr = f"{B}array<{V}<{t},{m}>>"
        iv = f"{V}<std::size_t,{n}>"
        lays = [f"{B}strided<{iv},{arr}>", f"{B}morton<{iv},{arr},true>", f"{B}morton<{iv},{arr},false>"] + ([f"{B}hilbert<{iv},{arr}>"] if n == 2 else [])
        for a in lays:
            for b in lays:
                lines.append(f"template void conv<{a},{b}>(const covfie::field<{a}> &);\n")
                n_pairs += 1
        # the converting constructors also accept a source whose stored scalar differs (values are converted element-wise)
        t2 = "double" if t == "float" else "float"
        arr2 = f"{B}array<{V}<{t2},{m}>>"
        lays2 = [f"{B}strided<{iv},{arr2}>", f"{B}morton<{iv},{arr2},false>"] + ([f"{B}hilbert<{iv},{arr2}>"] if n == 2 else [])
        for a in lays[:2]:
            for b in lays2:
                lines.append(f"template void conv<{a},{b}>(const covfie::field<{a}> &);\n")
                n_pairs += 1
        # whole stacks
        for ia, ib in (("linear", "nearest_neighbour"), ("nearest_neighbour", "linear")):
            a = f"{B}affine<{B}{ia}<{lays[0]},{V}<float,{n}>>>"
            b = f"{B}affine<{B}{ib}<{rng.choice(lays)},{V}<float,{n}>>>"
            lines.append(f"template void conv<{a},{b}>(const covfie::field<{a}> &);\n")
            n_pairs += 1
    # interpolator swaps that also change the interpolator's coordinate scalar (float <-> double)
    for n in (1, 2, 3):
        arr = f"{B}array<{V}<float,{n}>>"
        iv = f"{V}<std::size_t,{n}>"
        st = f"{B}strided<{iv},{arr}>"
        mo = f"{B}morton<{iv},{arr},false>"
        for a_, b_ in ((f"{B}nearest_neighbour<{st},{V}<float,{n}>>", f"{B}linear<{st},{V}<double,{n}>>"),
                       (f"{B}linear<{st},{V}<double,{n}>>", f"{B}nearest_neighbour<{mo},{V}<float,{n}>>"),
                       (f"{B}nearest_neighbour<{mo},{V}<double,{n}>>", f"{B}nearest_neighbour<{st},{V}<float,{n}>>")):
            lines.append(f"template void conv<{a_},{b_}>(const covfie::field<{a_}> &);\n")
            n_pairs += 1
    # the construction idioms of the examples (generate_test_field.cpp, slice3dto2d.cpp): a pack whose last element is the
    # owning data of the layer beneath as an lvalue (const or not) taken from another field
    lines.append("template <class Core, class Full> void idiom(covfie::field<Core> & cf, const covfie::field<Core> & ccf, typename Full::configuration_t a) {\n"
                 "  covfie::field<Full> f1(covfie::make_parameter_pack(typename Full::configuration_t(a), typename Full::backend_t::configuration_t{}, cf.backend()));\n"
                 "  covfie::field<Full> f2(covfie::make_parameter_pack(typename Full::configuration_t(a), typename Full::backend_t::configuration_t{}, ccf.backend()));\n"
                 "  covfie::field<Core> b1(covfie::make_parameter_pack(f1.backend().get_backend().get_backend()));\n"
                 "  const covfie::field<Full> & cf2 = f2;\n"
                 "  covfie::field<Core> b2(covfie::make_parameter_pack(cf2.backend().get_backend().get_backend()));\n"
                 "  (void)b1; (void)b2;\n}\n")
    for n in (1, 2, 3, 4):
        t = rng.choice(["float", "double"])
        m = rng.choice([1, 2, 3])
        arr = f"{B}array<{V}<{t},{m}>>"
        iv = f"{V}<std::size_t,{n}>"
        for core_t in (f"{B}strided<{iv},{arr}>", f"{B}morton<{iv},{arr},false>"):
            ip = rng.choice(["linear", "nearest_neighbour"])
            full = f"{B}affine<{B}{ip}<{core_t},{V}<float,{n}>>>"
            lines.append(f"template void idiom<{core_t},{full}>(covfie::field<{core_t}> &, const covfie::field<{core_t}> &, typename {full}::configuration_t);\n")
            n_pairs += 1
    return "".join(lines), n_pairs


def cuda_shim_tu():
    """Fields over CUDA device storage (host shim of the CUDA runtime: declarations and host-memory stand-ins only):
    conversion from a host field, copy construction, copy assignment, move, view, lookup must compile."""
    return ('#include "cov.hpp"\n#include <covfie/cuda/backend/primitive/cuda_device_array.hpp>\n'
            "template <class T, int N, int M> void dev(const covfie::field<covfie::backend::strided<covfie::vector::vector_d<std::size_t,N>,covfie::backend::array<covfie::vector::vector_d<T,M>>>> & h) {\n"
            "  using D = covfie::backend::strided<covfie::vector::vector_d<std::size_t,N>,covfie::backend::cuda_device_array<covfie::vector::vector_d<T,M>>>;\n"
            "  static_assert(covfie::concepts::field_backend<D>);\n"
            "  covfie::field<D> d(h); covfie::field<D> c(d); covfie::field<D> m(std::move(c)); c = d; c = std::move(m);\n"
            "  typename covfie::field<D>::view_t v(d); typename covfie::field<D>::coordinate_t x{}; (void)v.at(x);\n}\n"
            "template void dev<float,1,1>(const covfie::field<covfie::backend::strided<covfie::vector::vector_d<std::size_t,1>,covfie::backend::array<covfie::vector::vector_d<float,1>>>> &);\n"
            "template void dev<double,3,3>(const covfie::field<covfie::backend::strided<covfie::vector::vector_d<std::size_t,3>,covfie::backend::array<covfie::vector::vector_d<double,3>>>> &);\n"
            "template void dev<float,2,4>(const covfie::field<covfie::backend::strided<covfie::vector::vector_d<std::size_t,2>,covfie::backend::array<covfie::vector::vector_d<float,4>>>> &);\n")


class C13:
    pid = "C13"
    engine = "E3"
    level = "exploration"
    technique = "generated translation units (stacks from the layer grammar x the whole field API) with the compiler's verdict as oracle; run-time API exercise through the zoo adapter"
    level_text = ("Program generation over the layer grammar: pairwise adjacency cover compiled and executed in the quick tier, every kind sequence up to "
                  "depth 5 with several parameter assignments type-checked in the thorough tier; ill-kinded catalogue with well-kinded twins.")
    level_note = "trusted: g++ 12 as the arbiter of well-formedness; the grammar in vlib/stackgen.py as the definition of 'well-kinded'"
    rule = ("programs = one TU per generated stack instantiating default / parameter-pack / copy / move construction, copy / move assignment, view "
            "construction and copy, lookup (vector and variadic), get_configuration/get_backend chain, dump, stream constructor, backend concept and "
            "trivially-copyable view; quick: grammar cover of adjacent layer-kind pairs (compiled and executed) + converting construction for all "
            "layout pairs N=1..4 + ill-kinded catalogue (each entry with a well-kinded twin, N/M/scalars seeded); thorough: all kind sequences of "
            "depth <= 5 x 4 assignments under -fsyntax-only. Oracle: well-kinded must compile, ill-kinded must be rejected. non-trivial = stack of "
            "depth >= 2; distinct by canonical type string")

    def zoo_h(self, tier, seed):
        st, missing = zoo.thorough_stacks(seed) if tier == "thorough" else zoo.quick_stacks(seed)
        if missing:
            raise core.InfraError(f"stack cover misses features {missing}")
        return zoo.ZooH("zoo_C13", st, "C13", shards=16), st

    def setup(self):
        h, _ = self.zoo_h("quick", 1)
        e1.build_all([h])

    def replay(self, path):
        c = json.load(open(path))
        if c.get("kind") == "program":
            ok, log = e3.syntax_only(c["program"])
            want = c["must_compile"]
            if ok != want:
                e1.violation(self.pid, path)
                return 1
            core.say(f"replay passes: property={self.pid} {path}")
            return 0
        h, _ = self.zoo_h("quick", c.get("stack_seed", 1))
        return e1.replay(self.pid, [h], path)

    def check(self, tier, seed):
        t0 = time.time()
        viol = 0
        samples, types_seen = [], set()
        programs = 0

        def report(kind, name, text, must_compile, log):
            nonlocal viol
            p = core.save_replay(self.pid, {"property": self.pid, "kind": "program", "what": name, "must_compile": must_compile, "program": text, "compiler_log": log[:6000]})
            core.log(f"[C13] {name}: {'does not compile' if must_compile else 'is accepted by the compiler'}\n{log[:1500]}")
            e1.violation(self.pid, p)
            viol += 1

        # 1. ill-kinded catalogue with twins
        cat = ill_kinded_catalogue(seed)
        res = core.parallel(lambda e: (e3.syntax_only(e[1]), e3.syntax_only(e[2])), cat)
        ill_ok = 0
        for (name, good, bad), ((g_ok, g_log), (b_ok, b_log)) in zip(cat, res):
            programs += 2
            if not g_ok:
                report("twin", "well-kinded twin of: " + name, good, True, g_log)
            elif b_ok:
                report("ill", "ill-kinded: " + name, bad, False, "")
            else:
                ill_ok += 1
        samples.append({"ill_kinded_example": cat[0][0], "program": cat[0][2]})
        # 2. converting construction
        conv, n_pairs = conversion_tu(seed)
        ok, log = e3.syntax_only(conv, zoo.isa_flags())
        programs += 1
        if not ok:
            report("conv", "converting construction between compatible stacks", conv, True, log)
        cu = cuda_shim_tu()
        ok, log = e3.syntax_only(cu, ["-I" + core.REPO + "/lib/cuda", "-I" + core.HARNESS + "/cuda_shim"])
        programs += 1
        if not ok:
            report("cuda", "fields over cuda_device_array (host shim): conversion, copy, assignment, view", cu, True, log)
        # 3. the zoo cover: compiled for real and executed
        h, stacks = self.zoo_h(tier, seed)
        for l in stacks:
            types_seen.add(stackgen.cpp_type(l))
        zoo_rc = e1.check(self.pid, tier, seed, [h], self.level, self.rule, min_eval=100) if not viol else 1
        zoo_ev = {}
        try:
            zoo_ev = json.load(open(os.path.join(core.EVIDENCE, "C13.json")))["coverage"]
        except Exception:  # noqa
            pass
        if zoo_rc != 0:
            viol += 1
        # 4. thorough: every kind sequence up to depth 5
        enumerated = 0
        if tier == "thorough" and not viol:
            rng = random.Random(f"{seed}:C13:enum")
            seqs = stackgen.all_kind_sequences(5)
            types = []
            for kinds, base in seqs:
                got = 0
                for _ in range(40):
                    if got >= 4:
                        break
                    l = stackgen.from_kinds(kinds, base, rng)
                    if l is None:
                        continue
                    t = stackgen.cpp_type(l)
                    if t in types_seen:
                        got += 1
                        continue
                    types_seen.add(t)
                    types.append(t)
                    got += 1
            batches = [types[i:i + 10] for i in range(0, len(types), 10)]
            fl = zoo.isa_flags()
            results = core.parallel(lambda b: e3.syntax_only(api_tu(b), fl), batches)
            programs += len(batches)
            enumerated = len(types)
            for b, (ok, log) in zip(batches, results):
                if ok:
                    continue
                # bisect down to single stacks
                for t in b:
                    ok1, log1 = e3.syntax_only(api_tu([t]), fl)
                    if not ok1:
                        report("enum", "well-kinded stack " + t, api_tu([t]), True, log1)
                        if viol > 5:
                            break
            samples.append({"enumerated_example": types[len(types) // 2] if types else None})
        cov = {
            "evaluations": programs + zoo_ev.get("evaluations", 0),
            "distinct_nontrivial": len([t for t in types_seen if t.count("<") >= 3]),
            "rule": self.rule,
            "samples": samples + zoo_ev.get("samples", [])[:8],
            "programs": programs,
            "stacks_compiled_and_executed": len(stacks),
            "stacks_type_checked_by_enumeration": enumerated,
            "kind_sequences": len(stackgen.all_kind_sequences(5)) if tier == "thorough" else None,
            "ill_kinded_rejected": ill_ok,
            "ill_kinded_entries": len(cat),
            "conversion_pairs": n_pairs,
            "adjacent_kind_pairs_covered": len(stackgen.well_kinded_pairs()),
            "zoo_run": {k: zoo_ev.get(k) for k in ("evaluations", "distinct_nontrivial", "labels")},
            "exhaustive": tier == "thorough",
            "tools": core.tool_versions(),
        }
        core.write_evidence(self.pid, tier, seed, self.level, cov, time.time() - t0, violations=viol,
                            assumptions=["'well-kinded' is defined by the grammar of vlib/stackgen.py (interpolators on integer-coordinate levels, affine on real ones, Hilbert N=2, views <= 256 bytes)"])
        if viol:
            return 1
        core.log(f"[C13] ok: {programs} generated programs, {len(types_seen)} distinct stack types, {time.time() - t0:.1f}s")
        return 0
