"""Stack-level shrinking for the zoo (engine E2).

rapidcheck shrinks the runtime values of a failing case; this module shrinks the *stack*: starting from the stack type
on which a zoo mode reported a violation it tries smaller well-kinded stacks (one layer deleted, a lower N or M, the
interpolator or storage order replaced by the simplest one) and re-runs the same mode (same seed) on each candidate alone.
A candidate on which the mode fails again replaces the current stack. The result is a (smaller stack, value-shrunk case)
pair; it is reported in addition to the original violation."""
import copy
import json
import os

from . import core, stackgen, zoo, e1


def _spec(layers):
    """(kind, own parameters) list, outermost first, from which stackgen.finish() re-derives the propagated attributes."""
    out = []
    for l in layers:
        k = l["kind"]
        p = {}
        if k == "array":
            p = {"M": l["M"], "out": l["out"]}
        elif k == "identity":
            p = {"N": l["N"], "in": l["in"]}
        elif k == "constant":
            p = {"N": l["N"], "in": l["in"], "M": l["M"], "out": l["out"]}
        elif k in stackgen.ORDERS:
            p = {"N": l["N"], "in": l["in"]}
            if k == "morton":
                p["bmi2"] = l["bmi2"]
        elif k == "shuffle":
            p = {"perm": list(l["perm"])}
        elif k == "covariant_cast":
            p = {"target": l["target"]}
        elif k in stackgen.INTERPS:
            p = {"in": l["in"]}
        out.append((k, p))
    return out


def _finish(spec):
    try:
        l = stackgen.finish(spec)
        if stackgen.view_size(l)[0] > 256:
            return None
        return l
    except (AssertionError, KeyError, IndexError):
        return None


def candidates(layers):
    """Smaller well-kinded stacks, most aggressive first."""
    spec = _spec(layers)
    out = []
    n_prim = 2 if layers[-1]["kind"] == "array" else 1
    # delete one wrapper / interpolator layer
    for i in range(len(spec) - n_prim):
        s = spec[:i] + spec[i + 1:]
        out.append(s)
    # lower the dimensionalities
    inner = spec[-n_prim]
    N = inner[1].get("N")
    if N and N > 1 and inner[0] != "hilbert":
        s = copy.deepcopy(spec)
        s[-n_prim][1]["N"] = N - 1
        for k, p in s:
            if k == "shuffle":
                p["perm"] = [x for x in p["perm"] if x < N - 1]
        out.append(s)
    prim = spec[-1]
    if prim[0] in ("array", "constant") and prim[1]["M"] > 1:
        s = copy.deepcopy(spec)
        s[-1][1]["M"] -= 1
        out.append(s)
    # simplest storage order / interpolator
    for i, (k, p) in enumerate(spec):
        if k in ("morton", "hilbert"):
            s = copy.deepcopy(spec)
            s[i] = ("strided", {"N": p["N"], "in": p["in"]})
            out.append(s)
        if k == "linear":
            s = copy.deepcopy(spec)
            s[i] = ("nearest_neighbour", dict(p))
            out.append(s)
    res, seen = [], {stackgen.cpp_type(layers)}
    for s in out:
        l = _finish(s)
        if l is None:
            continue
        t = stackgen.cpp_type(l)
        if t not in seen:
            seen.add(t)
            res.append(l)
    return res


def fails(pid, mode, layers, tier, seed, env):
    """Build a one-stack zoo and run the mode on it; returns the replay case (dict) if it fails, else None."""
    h = zoo.ZooH(f"zoo_shrink_{mode}", [layers], mode, shards=1, env=env)
    try:
        e1.build_all([h])
    except core.CompileFailure as e:
        return {"kind": "compile-failure", "stack": stackgen.cpp_type(layers), "log": e.log[:4000]}
    workdir = os.path.join(core.WORK, pid)
    os.makedirs(workdir, exist_ok=True)
    r = e1._run_shard((h, 0, tier, seed, [], workdir))
    if r["rc"] in (0, 3, "timeout"):
        return None
    case = dict(r["replay"] or {})
    case.setdefault("message", "process died (see log)")
    case["log_tail"] = r["log"][-3000:]
    return case


def shrink(pid, mode, layers, tier, seed, env=None, max_builds=14):
    """Greedy descent; returns (smaller layers, case) or None if no smaller failing stack was found."""
    cur, cur_case, builds = layers, None, 0
    improved = True
    while improved and builds < max_builds:
        improved = False
        for cand in candidates(cur):
            if builds >= max_builds:
                break
            builds += 1
            c = fails(pid, mode, cand, tier, seed, env or {})
            if c is not None:
                cur, cur_case, improved = cand, c, True
                break
    if cur_case is None:
        return None
    cur_case.update({"property": pid, "harness": f"zoo_{mode}", "stack_type": stackgen.cpp_type(cur), "stack_layers": cur,
                     "shrunk_from": stackgen.cpp_type(layers), "note": "stack-level shrinking: the check fails on this smaller stack as well (fresh campaign, same seed)"})
    return cur, cur_case
