"""Property registry: id -> (check(tier, seed) -> exit code, replay(path) -> exit code)."""
from . import core, e1
from .e1 import H

REG = {}

ENGINES = [
    {"name": "E1", "path": "harness/prop_*.cpp + harness/common.cpp + vlib/e1.py", "serves_properties": [],
     "kind_free_text": "rapidcheck harnesses (generated inputs, shrinking, explicit JSON replays) plus complete enumeration of small input spaces; built with ASan+UBSan and assertions on"},
]


def prop(pid):
    def deco(cls):
        REG[pid] = cls()
        return cls
    return deco


class E1Prop:
    level = "exploration"
    engine = "E1"
    technique = "property-based testing (rapidcheck generators + exhaustive enumeration of small spaces) against an independent reference oracle, ASan/UBSan on"
    level_text = ""
    level_note = "trusted: g++ 12 / clang 14 and their sanitizer runtimes, rapidcheck, the reference oracles in /verif/harness (written from the property statement, sharing no code with the library)"
    rule = ""
    assumptions = ()
    min_eval = 1

    def harnesses(self, tier):
        raise NotImplementedError

    def check(self, tier, seed):
        return e1.check(self.pid, tier, seed, self.harnesses(tier), self.level, self.rule, self.assumptions, min_eval=self.min_eval)

    def replay(self, path):
        return e1.replay(self.pid, self.harnesses("quick"), path)

    def setup(self):
        e1.build_all(self.harnesses("quick"))


@prop("C19")
class C19(E1Prop):
    pid = "C19"
    rule = ("cases = extent vectors for covfie::utility::nd_map, N in 1..5, index types size_t/unsigned/int/uint8/uint16: every vector with extents in "
            "0..B_N (exhaustive) plus rapidcheck vectors with extents up to 70 under a 60000-cell cap, plus boxes too large to enumerate (volume a "
            "multiple of 2^bits of the index type, and others) probed for their first callback; oracle = visit count per mixed-radix rank must be "
            "exactly 1 and no tuple outside the box; non-trivial = N>=2 and extents not all equal; distinct by (instantiation, extent vector)")
    min_eval = 1000
    level_text = ("Generated-input search: every extent vector up to a per-dimensionality bound is enumerated and larger ones are sampled; each run "
                  "compares the multiset of visited tuples with the box. Exhaustive below the bound, sampled above; no claim beyond the explored set.")

    def harnesses(self, tier):
        return [H("prop_C19", "prop_C19.cpp", shards=3)]


@prop("C18")
class C18(E1Prop):
    pid = "C18"
    rule = ("round_pow2<uintW>: every i in 1..2^(W-1) for W=8,16 (W=32 in the thorough tier), dense blocks at both ends plus every 2^k-2..2^k+2 and "
            "rapidcheck boundary/random values for W=32,64; ipow<uintW>: all 65536 pairs at W=8, all b x e<=20 at W=16, dense blocks and "
            "boundary/random (b,e) at W=32,64; oracles: bit-count power of two, left-to-right 128-bit exponentiation cross-checked against repeated "
            "multiplication; sizing: every extent vector up to B_N and boundary-biased random ones converted row-major -> Morton(BMI2, portable)/Hilbert, "
            "largest curve position of an in-range coordinate must be below the allocated cell count read back from the converted field. "
            "non-trivial: i not a power of two / b>=2 and e>=2 / extents not an equal power-of-two cube; distinct by input value(s)")
    assumptions = ("clang++ build of the numeric harness adds UBSan coverage of promoted 16-bit multiplies that g++ does not instrument",)
    min_eval = 100000
    level_text = ("Generated-input search with complete enumeration of the 8- and 16-bit domains (32-bit round_pow2 in the thorough tier) and boundary-biased "
                  "sampling at 32/64 bits, against independent arithmetic oracles, under g++ and clang UBSan; sizing consequence checked on real converted fields.")

    def harnesses(self, tier):
        return [H("prop_C18_num_gcc", "prop_C18.cpp", shards=8),
                H("prop_C18_num_clang", "prop_C18.cpp", shards=8, compiler="clang++"),
                H("prop_C18_num_gcc_isa", "prop_C18.cpp", shards=8, flags=core.SAN + zoo.isa_flags()),
                H("prop_C18_sizing_bmi2", "prop_C18.cpp", shards=13, defines=["VF_C18_SIZING"], flags=core.SAN + zoo.isa_flags()),
                H("prop_C18_sizing_nobmi2", "prop_C18.cpp", shards=13, defines=["VF_C18_SIZING"])]


@prop("C14")
class C14(E1Prop):
    pid = "C14"
    rule = ("row-major: strided<I^N, identity<size1>> for every extent vector up to B_N (every coordinate) and rapidcheck extents up to 2^(60/N) with "
            "corner/centre/random coordinates, position compared with sum_k c_k prod_{l>k} N_l; Morton (BMI2 and portable, static calculate_index and "
            "the layer over identity<size1>): every coordinate with <= b bits per axis, boundary bit patterns (single bits, 2^k-1, alternating masks) on "
            "each axis against all-zero/all-one/alternating backgrounds up to 2^floor(64/N)-1, random masked 64-bit values, compared with a naive bit "
            "interleave; Hilbert (size_t/unsigned/int/uint16 coordinates; Morton also with uint16): every cell of the 2^k square for k=0..10, validity predicate (bijection onto [0,4^k), origin first, consecutive "
            "positions edge-adjacent). non-trivial: extents pairwise different / a coordinate with a bit above bit 8 / k>=2; evaluations count "
            "individual position comparisons")
    min_eval = 100000
    level_text = ("Generated-input search against the published curve definitions restated independently (formula, naive interleave, validity predicate); "
                  "exhaustive for small bit-widths / extents and all Hilbert orders up to 10, boundary-biased sampling beyond.")

    def harnesses(self, tier):
        # two builds: with -mbmi2 (pdep path + the portable loop selected by use_bmi2=false) and without
        # (the portable loop of the #else branch, which is what the suite's own build compiles)
        return [H("prop_C14_bmi2", "prop_C14.cpp", shards=8, flags=core.SAN + zoo.isa_flags()),
                # the build without ISA extensions is also the OpenMP build (code paths under _OPENMP)
                H("prop_C14_nobmi2", "prop_C14.cpp", shards=8, flags=core.SAN + ["-fopenmp"], link_flags=core.SAN_LINK + ["-fopenmp"])]


@prop("C01")
class C01(E1Prop):
    pid = "C01"
    rule = ("cases = (layer in {row-major, Morton BMI2, Morton portable [both the use_bmi2=false loop of a -mbmi2 build and the #else loop of a plain build], "
            "Hilbert}, N in 1..4 (Hilbert 2), coordinate scalar in {size_t, unsigned, int}, (M,T) rotating over float/double x 1..4, extent vector, "
            "construction route {from extents | by conversion from a row-major field | from a parameter pack with the documented storage length}, "
            "write sequence of (coordinate, raw bit patterns)); every extent vector up to B_N is enumerated, larger ones (up to 300 per axis / 32 MiB "
            "of curve storage, boundary-biased, one long axis) come from rapidcheck. Oracles: positions over identity<size1> pairwise distinct and "
            "below the allocated length read back from the field; distinct fill read back; model N-D array "
            "compared bit-for-bit after writes (after every write when <= 512 cells); ASan and the library's assertions live. "
            "non-trivial = shape not all ones and, for curves, not an equal power-of-two cube; distinct by (instantiation, extents, route, writes)")
    min_eval = 3000
    level_text = ("Generated-input search against a plain N-D array model with complete enumeration of all small extent vectors for every layer x N x "
                  "coordinate type, sampled beyond; memory safety judged by ASan with the library's bounds assertions enabled.")

    def harnesses(self, tier):
        return [H("prop_C01_strided", "prop_C01.cpp", shards=7, defines=["VF_GROUP=0"]),
                H("prop_C01_morton_bmi2", "prop_C01.cpp", shards=7, defines=["VF_GROUP=1"], flags=core.SAN + zoo.isa_flags()),
                H("prop_C01_morton_portable", "prop_C01.cpp", shards=7, defines=["VF_GROUP=2"], flags=core.SAN + zoo.isa_flags()),
                H("prop_C01_morton_portable_else", "prop_C01.cpp", shards=7, defines=["VF_GROUP=2"]),
                H("prop_C01_hilbert", "prop_C01.cpp", shards=4, defines=["VF_GROUP=3"])]


@prop("C04")
class C04(E1Prop):
    pid = "C04"
    rule = ("cases = real coordinates for nearest_neighbour over identity<long^N> (returns the chosen lattice point; magnitudes around 0, 2^23, 2^24, "
            "2^52, 2^53, negative) and over strided<array> storing each cell's own rank (extents 1..40), N in 1..4, coordinate scalar float and double; "
            "per axis: half-integer +- 0..2 ulp, integer +- 0..2 ulp, random k/1024 offsets, kept inside the open domain (-1/2, extent-1/2); 1-D "
            "boundary sets enumerated completely. Oracle: |p_k - x_k| <= 1/2 in long double for every component of the lattice point actually read. "
            "non-trivial = some component within 4 ulp of a half-integer (or a double beyond single precision); distinct by coordinate bits")
    min_eval = 20000
    level_text = ("Generated-input search with boundary-directed generators (one ulp either side of every half-integer) and an exact long-double distance "
                  "oracle; complete enumeration of the 1-D boundary sets, sampling in higher dimensions.")

    def harnesses(self, tier):
        # second build with the host's instruction-set extensions enabled (code under #if __SSE4_1__ / __AVX__ ...)
        return [H("prop_C04", "prop_C04.cpp", shards=8), H("prop_C04_isa", "prop_C04.cpp", shards=8, flags=core.SAN + zoo.isa_flags())]


@prop("C03")
class C03(E1Prop):
    pid = "C03"
    rule = ("cases = (N in 1..5, M in 1..4: all 20 pairs, (coordinate scalar, stored scalar) rotating over float/double so that every combination occurs "
            "for N=M and N!=M, backend strided<array> or clamp<strided<array>>, extents 2..9 under a cell cap, stored values = arbitrary finite bit "
            "patterns incl. +-0, subnormals, tiny normals, values near the overflow cap max(R)/2^(N+2), small integers; 6 coordinates per field: cell "
            "+ fraction with fraction in {0, eps, 2^-k, 1/2, 1-eps/2, denorm_min, random}, emphasis on the last cell; with the clamp beneath also "
            "coordinates up to 2^61). Oracle: binary128 N-linear interpolant of the stored values converted to the coordinate precision; "
            "|got-exact| <= (2(2N+2^N+3)u_R+(2^N+1)u_T)*sum|w||v| + u_T|exact| + underflow terms; exact equality at lattice points; range of the 2^N "
            "corners +- bound. evaluations count coordinates; non-trivial = coordinate not a lattice point (data are never affine); distinct by "
            "(instantiation, extents, value seed, coordinate bits)")
    min_eval = 20000
    assumptions = ("x86-64 SSE arithmetic, round-to-nearest; stored magnitudes capped at max(R)/2^(N+2) so that neither conversion nor the weighted sum overflows",
                   "without a clamp layer coordinates are kept in [0, extent-1); with it, in [0, 2^61]")
    level_text = ("Generated-input search against an exact (binary128) evaluation of the interpolation formula with a stated forward error bound, for all 20 "
                  "(N,M) pairs including N != M and mixed precisions, boundary-directed coordinates and adversarial stored bit patterns.")

    def harnesses(self, tier):
        return [H("prop_C03_n12", "prop_C03.cpp", shards=8, defines=["VF_GROUP=0"]),
                H("prop_C03_n3", "prop_C03.cpp", shards=8, defines=["VF_GROUP=1"]),
                H("prop_C03_n4", "prop_C03.cpp", shards=8, defines=["VF_GROUP=2"]),
                H("prop_C03_n5", "prop_C03.cpp", shards=8, defines=["VF_GROUP=3"])]


@prop("C09")
class C09(E1Prop):
    pid = "C09"
    rule = ("cases = (N in 1..4, scalar float/double, 1..4 affine transforms, vector x) on two domains: small integers -8..8 (every operation exact -> "
            "exact equality) and arbitrary finite floats with bounded exponent spread (binary128 reference, |got-exact| <= c(N,k) u |A||x|); all 1-D "
            "(A1,A2,x) with entries in -3..3 enumerated. Checked per case: affine<identity<R^N>> lookup = A.x+t; affine*vector; (A1*..*Ak)*x = "
            "A1*(..*(Ak*x)) = model composition; entries of A1*A2 against an independent product; translation(t)*x = x+t; scaling(s)*x = s.x; identity "
            "neutral on both sides. non-trivial = first matrix not diagonal (N>1), translation non-zero and, for exact products, first two factors "
            "do not commute; distinct by all bit patterns")
    min_eval = 20000
    assumptions = ("float-domain scalars have exponents within 2^+-12 (float) / 2^+-30 (double) so that no product of five factors over- or underflows",)
    level_text = ("Generated-input search: exact oracle on the integer domain (where a swapped product order or a misplaced translation column changes "
                  "the result), forward-error-bounded binary128 oracle on arbitrary floats; complete enumeration of a small 1-D domain.")

    def harnesses(self, tier):
        # second build in the suite's own configuration (-O2 -DNDEBUG, no sanitizer): the algebra must not depend on assert()
        return [H("prop_C09", "prop_C09.cpp", shards=8), H("prop_C09_release", "prop_C09.cpp", shards=8, flags=core.REL, link_flags=[])]


@prop("C10")
class C10(E1Prop):
    pid = "C10"
    rule = ("cases = (box lo<=hi, 6 coordinates) for clamp<identity<X^N>> with X in {int, unsigned, long, size_t, float, double}, N in 1..4; "
            "clamp<strided<I^N,array>> with the box inside the extents and I in {size_t, unsigned, int}; clamp<linear<strided>> with a real box inside "
            "[0,extent-1); linear<clamp<strided>> and nearest_neighbour<clamp<strided>> with the integer box [0,extent-1]. Coordinates come from the "
            "whole type: lowest/max, +-0, +-inf, subnormals, every bound and its neighbours (+-1, +-2 / ulps), random bit patterns (NaN excluded; "
            "|x| <= 2^62 where an interpolator converts to an index, x >= 0 for linear). Oracles: component-wise clamp (numeric equality); model "
            "array value at the clamped coordinate; the un-clamped library interpolator evaluated at the clamped coordinate; ASan for every access. "
            "non-trivial = at least one component outside the box; distinct by (box, extents, coordinate bits)")
    min_eval = 20000
    level_text = ("Generated-input search over the full range of each coordinate type with bound-adjacent emphasis against a one-line clamp model, with "
                  "array-backed variants under ASan so that an unclamped component becomes a memory error or a wrong cell.")

    def harnesses(self, tier):
        return [H("prop_C10_plain", "prop_C10.cpp", shards=8, defines=["VF_GROUP=0"]),
                H("prop_C10_interp", "prop_C10.cpp", shards=6, defines=["VF_GROUP=1"])]


@prop("C11")
class C11(E1Prop):
    pid = "C11"
    rule = ("cases = (box, default value, 8 coordinates) for backup<probe<X^N,T^M>> (probe = user-defined counting backend) with N and M in 1..4 "
            "independently and X rotating over int/unsigned/long/size_t/float/double (plus uint8/uint16/short), boxes ordered in seven cases out of "
            "eight and kept as drawn (possibly inverted: everything is outside) otherwise, and for backup<strided<I^N,array<float2>>> with a box inside the "
            "extents under ASan. Coordinates start on a bound and have a few components replaced by values equal/adjacent (+-1 or +-1 ulp) to a "
            "bound, type extremes, +-inf, +-0 or random bits (NaN excluded). Oracle: outside the closed box -> result is bit-identical to the "
            "configured default and the probe's query count is unchanged; inside -> count + 1, the probe saw exactly the coordinate, the result is "
            "the probe's value. non-trivial = exactly one component outside by the minimal amount, or inside with a component exactly on a bound; "
            "distinct by (box, default, coordinate bits)")
    min_eval = 20000
    level_text = ("Generated-input search with bound-adjacent generators against the one-line definition, with a counting backend making 'without "
                  "querying the backend' observable; array-backed variant under ASan.")

    def harnesses(self, tier):
        return [H("prop_C11", "prop_C11.cpp", shards=8)]


@prop("C05")
class C05(E1Prop):
    pid = "C05"
    rule = ("cases = (ordered pair of storage orders from {row-major, Morton BMI2, Morton portable, Hilbert}, N in 1..4 (Hilbert pairs N=2), float/double "
            "storage with M rotating, extent vector, content seed, copying or moving converting constructor); whole-stack pairs "
            "affine<I1<L1<array>>> -> affine<I2<L2<array>>> with I in {nearest, linear} and an affine matrix of arbitrary bit patterns. Every extent "
            "vector up to B_N enumerated per pair, boundary-biased random extents beyond. Source filled through a view with pairwise distinct bit "
            "patterns. Oracle: converted field reports the same extents / matrix bits, holds the same bits at every lattice coordinate, the source is "
            "unchanged (values and dump bytes) after a copying conversion, converting back reproduces the original dump byte-for-byte; ASan live. "
            "non-trivial = the two compositions differ and the extents are not an equal power-of-two cube; distinct by (pair, extents, seed, ctor)")
    min_eval = 3000
    assumptions = ("coordinate scalar size_t (what the benchmarks convert between)",
                   "host array -> CUDA device array is exercised on the host under a shim of the CUDA runtime (device memory = host memory): conversion logic only, no claim about device execution")
    level_text = ("Generated-input search over all ordered layout pairs with complete enumeration of small extent vectors, value-for-value and byte-for-byte "
                  "round-trip oracles, under ASan.")

    def harnesses(self, tier):
        b = core.SAN + zoo.isa_flags()
        return [H("prop_C05_n13", "prop_C05.cpp", shards=9, defines=["VF_GROUP=0"], flags=b),
                H("prop_C05_n2", "prop_C05.cpp", shards=8, defines=["VF_GROUP=1"], flags=b),
                # the build without ISA extensions is also the OpenMP build (-fopenmp defines _OPENMP: code paths under that macro)
                H("prop_C05_n2_nobmi2", "prop_C05.cpp", shards=8, defines=["VF_GROUP=1"], flags=core.SAN + ["-fopenmp"], link_flags=core.SAN_LINK + ["-fopenmp"]),
                H("prop_C05_n4", "prop_C05.cpp", shards=9, defines=["VF_GROUP=2"], flags=b),
                H("prop_C05_stacks", "prop_C05.cpp", shards=14, defines=["VF_GROUP=3"], flags=b),
                H("prop_C05_cuda_shim", "prop_C05.cpp", shards=4, defines=["VF_GROUP=4"], flags=b,
                  extra_inc=[core.REPO + "/lib/cuda", core.HARNESS + "/cuda_shim"]),
                # conversions of different fields running at the same time, under ThreadSanitizer
                H("tsan_ops_conv", "tsan_ops.cpp", shards=8, flags=TSAN, link_flags=["-fsanitize=thread"], env=dict(TSAN_ENV, VERIF_TSAN_OPS="conv"))]


@prop("C12")
class C12(E1Prop):
    pid = "C12"
    rule = ("cases = operation sequences over a pool of field slots and a fixed catalogue of 7 field types (row-major / Morton / Hilbert 2-D float1, "
            "row-major 3-D double2, nearest_neighbour<strided>, affine<nearest_neighbour<strided>>, raw array<float2>); operations = construct, "
            "default-construct, write through a view, copy/move construction, copy/move assignment (self included), converting copy/move between "
            "layouts, dump->load, destroy; operands are decoded modulo the pool so every history is executable. All histories up to length 3 over 2 "
            "slots x 2 types (quick; length 4 over 3 slots thorough) are enumerated; rapidcheck histories up to 60 operations over 4 slots. Oracle: a "
            "model pool of optional N-D arrays subjected to the same history, every live specified field read at every coordinate after every "
            "step; ASan for double free / use after free, LeakSanitizer checked per history. Moved-from and default-constructed fields are only "
            "assigned to or destroyed. non-trivial = history writes to a copy (or to the original after a copy) and reads the other side "
            "afterwards; distinct by operation-sequence hash")
    min_eval = 5000
    level_text = ("Model-based (stateful) property testing: generated operation histories executed against the library and against a plain-array model, "
                  "complete enumeration of short histories, sanitizers as ownership oracle.")

    def harnesses(self, tier):
        return [H("prop_C12", "prop_C12.cpp", shards=16)]

    def check(self, tier, seed):
        rc = super().check(tier, seed)
        if rc != 0 or tier != "thorough":
            return rc
        # thorough add-on: coverage-guided (libFuzzer) exploration of histories through the same interpreter and oracles
        from . import fuzz
        import json as _j
        import os as _os
        res = fuzz.history_campaign(self.pid, seed, runs=3000000, jobs=8)
        viol = 0
        for r in res:
            for a in r["artifacts"]:
                core.log(f"[C12] libFuzzer artifact (job {r['job']}):\n{r['log_tail'][-2000:]}")
                e1.violation(self.pid, a)
                viol += 1
        ev_path = _os.path.join(core.EVIDENCE, self.pid + ".json")
        ev = _j.load(open(ev_path))
        ev["coverage"]["libfuzzer_histories"] = [{k: r[k] for k in ("job", "execs", "coverage_edges", "wall")} for r in res]
        ev["coverage"]["evaluations"] += sum(r["execs"] for r in res)
        ev["violations"] = ev.get("violations", 0) + viol
        _j.dump(ev, open(ev_path, "w"), indent=1)
        return 1 if viol else 0

    def replay(self, path):
        import os as _os
        if _os.path.basename(path).startswith("fuzz-history-"):
            from . import fuzz
            if fuzz.history_replay(path):
                e1.violation(self.pid, path)
                return 1
            core.say(f"replay passes: property={self.pid} {path}")
            return 0
        return super().replay(path)


# ---------------------------------------------------------------------------------------------- engine E2 (zoo)
import os  # noqa: E402
from . import zoo, stackgen  # noqa: E402

ENGINES.append({"name": "E2", "path": "vlib/stackgen.py + vlib/zoo.py + harness/zoo/", "serves_properties": [],
                "kind_free_text": "seeded stack-grammar generator, one generated TU per stack, generic public-API adapter, reference interpreter "
                                  "(no covfie include) evaluating the generator's own descriptor, rapidcheck driver"})


def dict_harness(h, case):
    """e1.replay looks the harness up by the name stored in the case."""
    h.name = case.get("harness", h.name)
    return h


class ZooProp(E1Prop):
    engine = "E2"
    mode = None
    shards = 16

    def stacks(self, tier, seed):
        st, missing = zoo.thorough_stacks(seed) if tier == "thorough" else zoo.quick_stacks(seed)
        if missing:
            raise core.InfraError(f"stack cover misses adjacent pairs {missing}")
        return st

    def harnesses(self, tier, seed=1):
        return [zoo.ZooH("zoo_" + self.mode, self.stacks(tier, seed), self.mode, shards=self.shards)]

    def check(self, tier, seed):
        failures = []
        rc = e1.check(self.pid, tier, seed, self.harnesses(tier, seed), self.level, self.rule, self.assumptions, min_eval=self.min_eval,
                      extra_cov={"stacks": len(self.stacks(tier, seed))}, failures=failures)
        if rc == 1 and failures and not os.environ.get("VERIF_NO_STACK_SHRINK"):
            self.shrink_stack(tier, seed, failures)
        return rc

    def shrink_stack(self, tier, seed, failures):
        """Stack-level shrinking of the first zoo failure (the violation itself has already been reported)."""
        from . import zooshrink
        by_id = {stackgen.stack_id(l): l for l in self.stacks(tier, seed)}
        for h, case in failures:
            inst = case.get("inst", "")
            if not inst.startswith("zoo/") or inst[4:] not in by_id or not isinstance(h, zoo.ZooH):
                continue
            try:
                res = zooshrink.shrink(self.pid, self.mode, by_id[inst[4:]], "quick", seed, env={k: v for k, v in h.env.items() if k != "VERIF_ZOO_MODE"})
            except Exception as e:  # noqa  (shrinking is a convenience; it must never change the verdict)
                core.log(f"[{self.pid}] stack-level shrinking gave up: {e}")
                return
            if res:
                layers, c = res
                p = core.save_replay(self.pid, c)
                core.log(f"[{self.pid}] stack-level shrinking: also fails on the smaller stack {stackgen.cpp_type(layers)}")
                e1.violation(self.pid, p)
            return

    def replay(self, path):
        import json as _j
        c = _j.load(open(path))
        if "stack_layers" in c:
            h = zoo.ZooH(f"zoo_shrink_{self.mode}", [c["stack_layers"]], self.mode, shards=1)
            return e1.replay(self.pid, [dict_harness(h, c)], path)
        seed = c.get("stack_seed", 1)
        return e1.replay(self.pid, self.harnesses("quick", seed), path)

    def setup(self):
        e1.build_all(self.harnesses("quick", 1))


@prop("C02")
class C02(ZooProp):
    pid = "C02"
    mode = "C02"
    rule = ("cases = (stack from the layer grammar [pairwise cover of adjacent layer kinds, depth <= 5, N and M in 1..4 independent, all scalar types], "
            "configurations generated inside-out so the in-domain region of every layer is known, storage contents in +-2^10, 6 coordinates from the "
            "outermost region on the dyadic grid). Oracle: field_view::at (vector and variadic form) == reference interpreter applied to the "
            "generator's descriptor, exact equality; the interpreter refuses (counted, not compared) any case whose intermediates are not exactly "
            "representable. evaluations count coordinates; non-trivial = some wrapper acted (clamped / default returned / permuted / cast changed / "
            "interpolated / affine moved / N != M); distinct by (stack, configuration, contents, coordinate)")
    min_eval = 5000
    level_text = ("Generated stacks x generated inputs against an independent reference interpreter with exact equality on a domain where all "
                  "arithmetic is exact; adjacency-pair coverage of the grammar in the quick tier.")


@prop("C06")
class C06(ZooProp):
    pid = "C06"
    mode = "C06"
    rule = ("cases = (serialisable stack from the grammar cover: array, constant, identity, row-major, Morton, Hilbert, clamp, default, affine, "
            "permutation, cast, dereference, both interpolators; extents 0..7 incl. empty fields, 1 and non-powers of two; storage and every configuration scalar = "
            "arbitrary bit patterns biased to +-0, +-inf, quiet/signalling NaN payloads, subnormals, integer extremes). Oracle: the dump parses under "
            "the independent reference grammar with no trailing bytes and carries exactly the generated configuration words and payload; the "
            "reference printer reproduces the dump byte-for-byte; load(dump) has word-identical configurations at every layer and bit-identical "
            "storage and consumes exactly the dump; dump(load(dump)) == dump. non-trivial = payload contains a non-finite or subnormal pattern or a "
            "configuration differs from all-zero; distinct by dump bytes")
    min_eval = 3000
    level_text = ("Round-trip property over generated stacks and adversarial bit patterns, tied to an independent reference parser/printer of the file "
                  "format so that a self-consistent but wrong writer/reader pair is visible.")

    def harnesses(self, tier, seed=1):
        # dumps and loads of different fields (own streams) running at the same time, under ThreadSanitizer
        return super().harnesses(tier, seed) + [H("tsan_ops_io", "tsan_ops.cpp", shards=6, flags=TSAN, link_flags=["-fsanitize=thread"], env=dict(TSAN_ENV, VERIF_TSAN_OPS="io"))]


@prop("C17")
class C17(ZooProp):
    pid = "C17"
    mode = "C17"
    rule = ("zoo part: (stack from the grammar cover, generated configurations per layer, storage incl. empty fields, coordinates) -> "
            "get_configuration()/get_backend() walked from the outside must yield the generated configuration layer by layer and the array layer the "
            "length it was constructed with; a field rebuilt from the reported configurations and the "
            "innermost storage reports the same configurations, dumps to the same bytes, holds the same storage and agrees at the generated in-domain "
            "coordinates. helper part: make_parameter_pack_for<F>(a0..a_{d-1}) for stacks of depth 1..10 built from clamp/backup/shuffle/dereference/"
            "cast/affine/nearest/strided layers, every argument derived from its own generated integer; layer i must report argument i. "
            "non-trivial = two layers of the same configuration type received different values; distinct by configuration words")
    min_eval = 3000
    level_text = ("Generated stacks and configurations against the generator's own record of what was passed to each layer; helper overloads of every "
                  "depth 1..10 exercised with pairwise different arguments.")

    def harnesses(self, tier, seed=1):
        return super().harnesses(tier, seed) + [H("prop_C17_helper", "prop_C17.cpp", shards=4)]


from . import c13 as _c13  # noqa: E402

ENGINES.append({"name": "E3", "path": "vlib/e3.py + vlib/c13.py + vlib/c20.py + harness/api_all.hpp", "serves_properties": [],
                "kind_free_text": "program generation with the compiler's verdict / compile-time result tables as oracle"})
REG["C13"] = _c13.C13()


@prop("C08")
class C08(ZooProp):
    pid = "C08"
    mode = "C08"
    level = "fault_enumeration"
    rule = ("for every generated dump (stacks of the grammar cover, arbitrary bit patterns, empty fields included): (1) EVERY proper prefix; (2) every header / footer / tag / "
            "float-width word position taken from the reference parser's tree x replacement values {0, ~0, bit flips, +-1, the other magic word, "
            "tag +- footer offset, every other layer tag, widths 0/2/3/12/16, hashed}; (3) the dump loaded as every other stack type of the cover; (4) "
            "a stream whose n-th read request fails, for every n, both as short read + EOF and as an exception thrown by the stream buffer. Oracle: "
            "if the faulted bytes are not a grammatical dump of the target type according to the independent reference parser, the stream "
            "constructor must leave by an exception (abort / signal / sanitizer report / returned field = violation); grammatical-by-accident "
            "streams are counted and allowed. evaluations count injected faults; non-trivial = fault strictly inside the stream / an actual change "
            "/ a different target type; element counts > 2^20 are skipped (allocation failure is not modelled under ASan) and counted")
    min_eval = 20000
    assumptions = ("main pass: assertions enabled (no -DNDEBUG), ASan + UBSan; second pass: -O2 -DNDEBUG under valgrind memcheck on the fixed stack catalogue",
                   "a faulted element-count that would request more than 2^20 cells is excluded and counted (allocation failure is not modelled)")
    level_text = ("Complete enumeration of truncation points and of structural-word positions per generated dump, all ordered stack pairs, every failing "
                  "read index; differential against an independent reference parser of the format; thorough tier adds coverage-guided libFuzzer "
                  "campaigns on nine loader types with the same differential oracle inside the target.")

    def valgrind_pass(self, tier, seed):
        """The same fault enumeration on an -O2 -DNDEBUG build (no assertions, no sanitizer) under valgrind memcheck:
        a decision based on uninitialised bytes, or an invalid access, is reported there."""
        import json as _j
        import os as _os
        st = zoo.fixed_stacks()
        h = zoo.ZooH("zoo_C08_release", st, "C08", shards=len(st), flags=core.REL + zoo.isa_flags(), link_flags=[])
        e1.build_all([h])
        workdir = _os.path.join(core.WORK, self.pid)

        def one(i):
            out = _os.path.join(workdir, f"valgrind.{i}.stats.json")
            rep = _os.path.join(workdir, f"valgrind.{i}.replay.json")
            for p in (out, rep):
                if _os.path.exists(p):
                    _os.remove(p)
            env = dict(h.env, VERIF_TIER=tier, VERIF_SEED=str(seed), VERIF_SHARD=f"{i}/{h.shards}", VERIF_C08_CASES="1" if tier == "quick" else "6")
            rc, log, _ = core.run(["valgrind", "--quiet", "--error-exitcode=99", "--leak-check=no", h.bin, "--out", out, "--replay-out", rep], env=env, timeout=3 * 3600)
            def load(path):
                try:
                    return _j.load(open(path))
                except Exception:  # noqa
                    return None
            st_, rp = load(out), load(rep)
            return rc, log, st_, rp
        res = core.parallel(one, list(range(h.shards)))
        viol, faults = 0, 0
        for rc, log, st_, rp in res:
            if rc == 3:
                raise core.InfraError("valgrind pass: harness error\n" + log[-1500:])
            if rc != 0 and rc != "timeout":
                case = dict(rp or {}, property=self.pid, harness=h.name, configuration="-O2 -DNDEBUG under valgrind memcheck", log_tail=log[-5000:])
                p = core.save_replay(self.pid, case)
                core.log(f"[C08] valgrind / release build: exit {rc}\n{log[-2500:]}")
                e1.violation(self.pid, p)
                viol += 1
            elif st_:
                faults += st_["evaluations"]
        return viol, faults

    def check(self, tier, seed):
        rc = super().check(tier, seed)
        if rc != 0:
            return rc
        import json as _j
        import os as _os
        ev_path = _os.path.join(core.EVIDENCE, self.pid + ".json")
        viol, faults = self.valgrind_pass(tier, seed)
        ev = _j.load(open(ev_path))
        ev["coverage"]["valgrind_release_build"] = {"faults_injected": faults, "stacks": len(zoo.fixed_stacks()), "flags": " ".join(core.REL)}
        ev["coverage"]["evaluations"] += faults
        ev["violations"] = ev.get("violations", 0) + viol
        _j.dump(ev, open(ev_path, "w"), indent=1)
        if viol:
            return 1
        if tier != "thorough":
            return 0
        from . import fuzz
        res = fuzz.campaign(self.pid, seed, runs=2000000)
        viol = 0
        for r in res:
            for a in r["artifacts"]:
                core.log(f"[C08] libFuzzer artifact for {r['stack']} ({r['mode']} corpus):\n{r['log_tail'][-1500:]}")
                e1.violation(self.pid, a)
                viol += 1
        ev = _j.load(open(ev_path))
        ev["coverage"]["libfuzzer"] = [{k: r[k] for k in ("stack", "mode", "execs", "loaded", "excluded", "wall")} for r in res]
        ev["coverage"]["evaluations"] += sum(r["execs"] for r in res)
        ev["violations"] = ev.get("violations", 0) + viol
        _j.dump(ev, open(ev_path, "w"), indent=1)
        return 1 if viol else 0

    def replay(self, path):
        import os as _os
        if _os.path.basename(path).startswith("fuzz-"):
            from . import fuzz
            if fuzz.replay(path):
                e1.violation(self.pid, path)
                return 1
            core.say(f"replay passes: property={self.pid} {path}")
            return 0
        return super().replay(path)


@prop("C07")
class C07(ZooProp):
    pid = "C07"
    mode = "C07"
    rule = ("cases = (pair of stack types that differ only in the interpolation method and/or float<->double storage [stacks containing the "
            "out-of-range-default layer are excluded: its on-disk default follows the storage scalar], configurations as arbitrary bit patterns, "
            "stored finite values within single-precision range biased to 2^24+1, odd multiples above 2^24, 1+2^-30, multiples of 0.1, "
            "single-precision subnormals, values that underflow, values near FLT_MAX). Oracle: the file of type 1 loads into type 2; every other "
            "configuration word unchanged; widening exact (value and sign), narrowing = a nearest single-precision value with ties to even (checked "
            "against both neighbours in long double); the re-dump parses under the reference grammar and carries the converted payload; loading "
            "back is exact. Golden files (golden/*.json, one per serialisable layer kind, five of them verified byte-identical to what the pinned "
            "revision writes): load, recorded configurations and storage, byte-identical re-dump, grammatical. non-trivial = pair differs in width "
            "and a value needs rounding (or widening / interpolator-only pair); distinct by dump bytes")
    min_eval = 2000
    level_text = ("Generated pairs of compatible field types with rounding-directed stored values against an exact rounding oracle and the independent "
                  "format parser, plus a committed golden corpus pinning the byte layout across revisions.")

    def stacks_extras(self, seed):
        return zoo.c07_pairs(seed)

    def harnesses(self, tier, seed=1):
        st, ex = self.stacks_extras(seed)
        return [zoo.ZooH("zoo_C07", st, "C07", shards=16, extras=ex, env={"VERIF_GOLDEN": zoo.GOLDEN})]

    def stacks(self, tier, seed):
        return self.stacks_extras(seed)[0]


from . import c20 as _c20  # noqa: E402

REG["C20"] = _c20.C20()


TSAN = ["-O1", "-g1", "-fsanitize=thread", "-fno-omit-frame-pointer"]
TSAN_ENV = {"TSAN_OPTIONS": "halt_on_error=1:exitcode=66:report_signal_unsafe=0"}
ENGINES.append({"name": "E6b", "path": "harness/tsan_ops.cpp", "serves_properties": ["C05", "C06"],
                "kind_free_text": "generated workloads of whole-object operations (conversions; dump / load) on different fields running at the same time, under ThreadSanitizer, with the sequential result as value oracle"})
ENGINES.append({"name": "E6", "path": "harness/tsan_C16.cpp", "serves_properties": ["C16"],
                "kind_free_text": "generated multi-threaded lookup / disjoint-write workloads under ThreadSanitizer with a sequential run as value oracle and a racy positive control"})


@prop("C16")
class C16(E1Prop):
    pid = "C16"
    engine = "E6"
    technique = "generated thread workloads (rapidcheck) under ThreadSanitizer; per-thread result digests against a sequential execution; positive control"
    rule = ("cases = (storage order in {row-major 2-D/3-D/4-D/5-D, Morton BMI2 2-D/4-D, Morton portable 3-D, Hilbert} x {no interpolator, nearest, linear} x "
            "optional affine layer, extents 2..9, T in 2..16 threads, one shared view or per-thread views, per-thread coordinate lists clustered so "
            "that threads touch the same storage elements; writer workloads on reference-returning stacks with the lattice points dealt round-robin "
            "to the threads = disjoint but adjacent elements). Oracle: ThreadSanitizer reports nothing (halt_on_error) and every thread's digest "
            "equals the digest of a sequential execution of the same list. A deliberately racy control workload must be reported by TSan first, "
            "otherwise the run is inconclusive. Both an ISA-extension build and a plain build; 24 cold-start processes (the first index computations "
            "of the process are concurrent disjoint writes into an empty field). non-trivial = two threads touch the same (readers) or adjacent (writers) storage elements; distinct "
            "by workload hash")
    min_eval = 500
    assumptions = ("schedules are not enumerated: the claim rests on ThreadSanitizer's happens-before analysis of the accesses the generated workloads perform",)
    level_text = ("Generated concurrent workloads under ThreadSanitizer with a sequential value oracle and a positive control; would catch a mutable / static "
                  "cache inside a lookup or an index function; does not enumerate interleavings.")
    level_note = "trusted: ThreadSanitizer (g++ 12 runtime) as race oracle; rapidcheck; std::thread"

    def harnesses(self, tier):
        # two builds: with the host's instruction-set extensions (pdep Morton path) and plain (the portable #else code)
        return [H("tsan_C16", "tsan_C16.cpp", shards=16, flags=TSAN + zoo.isa_flags(), link_flags=["-fsanitize=thread"], env=TSAN_ENV),
                H("tsan_C16_plain", "tsan_C16.cpp", shards=16, flags=TSAN, link_flags=["-fsanitize=thread"], env=TSAN_ENV)]

    def cold_starts(self, hs):
        """Fresh processes whose first index computations are concurrent (lazy shared state would race only there)."""
        jobs = [(h, k) for h in hs for k in range(6) for _ in range(2)]

        def one(job):
            h, k = job
            rc, log, _ = core.run([h.bin], env=dict(TSAN_ENV, VERIF_TSAN_COLD=str(k)), timeout=600)
            return h, k, rc, log
        viol = 0
        for h, k, rc, log in core.parallel(one, jobs):
            if rc != 0:
                p = core.save_replay(self.pid, {"property": self.pid, "kind": "cold-start", "harness": h.name, "cold_start_index": k, "exit": rc, "log_tail": log[-6000:]})
                core.log(f"[C16] cold-start workload {k} of {h.name}: exit {rc}\n{log[-2500:]}")
                e1.violation(self.pid, p)
                viol += 1
        return viol, len(jobs)

    def check(self, tier, seed):
        hs = self.harnesses(tier)
        try:
            e1.build_all(hs)
        except core.CompileFailure:
            return e1.check(self.pid, tier, seed, hs, self.level, self.rule, self.assumptions, min_eval=self.min_eval)
        rc, log, _ = core.run([hs[0].bin], env=dict(TSAN_ENV, VERIF_TSAN_CONTROL="1"), timeout=300)
        if "ThreadSanitizer: data race" not in log or rc == 0:
            raise core.InfraError("positive control: ThreadSanitizer did not report the deliberately racy workload; the environment cannot carry the claim\n" + log[-1500:])
        cold_viol, cold_n = self.cold_starts(hs)
        if cold_viol:
            core.write_evidence(self.pid, tier, seed, self.level, {"evaluations": cold_n, "distinct_nontrivial": 0, "rule": self.rule, "samples": [{"cold_start": "violation"}]}, 0.0, violations=cold_viol)
            return 1
        return e1.check(self.pid, tier, seed, hs, self.level, self.rule, self.assumptions, min_eval=self.min_eval,
                        extra_cov={"positive_control": "two writers on one coordinate: reported by ThreadSanitizer",
                                   "cold_start_processes": cold_n})


from . import c15 as _c15  # noqa: E402

ENGINES.append({"name": "E7", "path": "vlib/c15.py", "serves_properties": ["C15"],
                "kind_free_text": "build-configuration differential: the same generated programs under assertions+ASan+UBSan, -O2 -DNDEBUG, +UBSan and valgrind; digests compared"})
REG["C15"] = _c15.C15()
