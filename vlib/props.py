"""Property registry: id -> (check(tier, seed) -> exit code, replay(path) -> exit code)."""
from . import core, e1
from .e1 import H

REG = {}


def prop(pid):
    def deco(cls):
        REG[pid] = cls()
        return cls
    return deco


class E1Prop:
    level = "exploration"
    rule = ""
    assumptions = ()
    min_eval = 1

    def harnesses(self, tier):
        raise NotImplementedError

    def check(self, tier, seed):
        return e1.check(self.pid, tier, seed, self.harnesses(tier), self.level, self.rule, self.assumptions, min_eval=self.min_eval)

    def replay(self, path):
        return e1.replay(self.pid, self.harnesses("quick"), path)

    def setup(self):
        e1.build_all(self.harnesses("quick"))


@prop("C19")
class C19(E1Prop):
    pid = "C19"
    rule = ("cases = extent vectors for covfie::utility::nd_map, N in 1..5, index types size_t/unsigned/int: every vector with extents in 0..B_N "
            "(exhaustive) plus rapidcheck vectors with extents up to 70 under a 60000-cell cap; oracle = visit count per mixed-radix rank must be "
            "exactly 1 and no tuple outside the box; non-trivial = N>=2 and extents not all equal; distinct by (instantiation, extent vector)")
    min_eval = 1000

    def harnesses(self, tier):
        return [H("prop_C19", "prop_C19.cpp", shards=3)]
