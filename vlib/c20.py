"""C20: sort_index_sequence yields the ascending rearrangement of the same multiset; is_permutation is true exactly
when its two sequences are equal as multisets.

Generated programs: TUs whose initialisers evaluate the templates into tables printed at run time; expected values are
computed here in Python (sorted() / multiset equality)."""
import itertools
import json
import random
import time

from . import core, e3, e1

HDR = """#include <covfie/core/utility/static_permutation.hpp>
#include <cstdio>
#include <utility>
template <std::size_t... Is> void pr(std::index_sequence<Is...>) { ((std::printf("%zu,", Is)), ...); std::printf("\\n"); }
template <class S> void sorted() { pr(typename covfie::utility::sort_index_sequence<S>::type{}); }
template <class A, class B> void perm() { std::putchar(covfie::utility::is_permutation<A, B>::value ? '1' : '0'); }
"""


def seq(s):
    return "std::index_sequence<" + ",".join(str(x) for x in s) + ">"


def sort_program(seqs):
    body = "".join(f"  sorted<{seq(s)}>();\n" for s in seqs)
    return HDR + "int main() {\n" + body + "}\n"


def perm_program(pairs):
    body = "".join(f"  perm<{seq(a)},{seq(b)}>();\n" for a, b in pairs)
    return HDR + "int main() {\n" + body + "  std::putchar('\\n');\n}\n"


def all_seqs(alphabet, maxlen):
    out = []
    for n in range(maxlen + 1):
        out += [list(t) for t in itertools.product(range(alphabet), repeat=n)]
    return out


class C20:
    pid = "C20"
    engine = "E3"
    level = "exploration"
    technique = "generated programs evaluating the compile-time templates into printed tables, compared with Python sorted() / multiset equality; exhaustive over a small alphabet"
    level_text = ("Complete enumeration of all index sequences of length <= 6 over {0..4} for the sort and of (a seeded share of / all) ordered pairs of "
                  "sequences of length <= 4 over {0..3} for the predicate, plus seeded long sequences with large values.")
    level_note = "trusted: g++ 12 evaluating the templates, Python's sorted() and Counter as oracles"
    rule = ("sort: all 19531 index sequences of length <= 6 over {0..4} (both tiers) + seeded random sequences of length <= 24 with values up to 2^64-1 (SIZE_MAX, 2^63, 2^32 and neighbours planted) + every multiset of size 7 (thorough: and 8) over {0..n-1} in one seeded order; the "
            "printed ::type must equal Python's sorted(). predicate: ordered pairs of the 341 sequences of length <= 4 over {0..3}: a seeded 10% "
            "(quick) / all 116281 (thorough), plus seeded random pairs (permuted copies, copies with one element changed), plus pairs of equal length and equal sum modulo 2^64 (multisets of size 2 and 3 over a pool of powers of two and neighbours, multisets of size 5 (thorough: 6) over {0..n-1}); value must equal multiset "
            "equality. non-trivial = sequence with a repeated value that is not already sorted / pair with equal length; distinct by the sequence(s)")

    def setup(self):
        pass

    def replay(self, path):
        c = json.load(open(path))
        if c["what"] == "sort":
            out = e3.compile_and_run("c20_replay", sort_program([c["sequence"]]))
            got = [int(x) for x in out.strip().strip(",").split(",") if x != ""]
            bad = got != sorted(c["sequence"])
        else:
            out = e3.compile_and_run("c20_replay", perm_program([(c["a"], c["b"])]))
            bad = (out.strip() == "1") != (sorted(c["a"]) == sorted(c["b"]))
        if bad:
            e1.violation(self.pid, path)
            return 1
        core.say(f"replay passes: property={self.pid} {path}")
        return 0

    def check(self, tier, seed):
        t0 = time.time()
        rng = random.Random(f"{seed}:C20")
        viol = 0
        # ---- sort
        seqs = all_seqs(5, 6)
        n_exh = len(seqs)
        for _ in range(200 if tier == "quick" else 3000):
            n = rng.randint(2, 24)
            big = rng.choice([6, 100, 2 ** 20, 2 ** 40, 2 ** 64])
            s = [rng.randrange(big) for _ in range(n)]
            if rng.random() < 0.4:
                # boundary values of std::size_t (a pivot of SIZE_MAX, 2^63, 2^32 +- 1, 0)
                for _ in range(rng.randint(1, 3)):
                    s[rng.randrange(n)] = rng.choice([2 ** 64 - 1, 2 ** 64 - 2, 2 ** 63, 2 ** 63 - 1, 2 ** 32, 2 ** 32 - 1, 0, 1])
            if rng.random() < 0.5:
                s += [rng.choice(s) for _ in range(rng.randint(1, 4))]   # force repeated values
                rng.shuffle(s)
            seqs.append(s)
        # every multiset of size n over {0..n-1} (dense values with repeats, beyond the exhaustive length), each in one seeded order
        n_dense = 0
        for n in ([7] if tier == "quick" else [7, 8]):
            for ms in itertools.combinations_with_replacement(range(n), n):
                s = list(ms)
                rng.shuffle(s)
                seqs.append(s)
                n_dense += 1
        chunks = [seqs[i::32] for i in range(32)]

        def run_sort(i):
            out = e3.compile_and_run(f"c20_sort_{i}", sort_program(chunks[i]))
            lines = out.split("\n")
            bad = []
            for s, line in zip(chunks[i], lines):
                got = [int(x) for x in line.strip(",").split(",") if x != ""]
                if got != sorted(s):
                    bad.append({"what": "sort", "sequence": s, "got": got, "expected": sorted(s)})
            return bad
        try:
            sort_bad = [b for r in core.parallel(run_sort, list(range(32))) for b in r]
        except core.CompileFailure as e:
            p = core.save_replay(self.pid, {"property": self.pid, "what": "compile-failure", "log": e.log[:6000]})
            core.log(e.log[:2000])
            e1.violation(self.pid, p)
            sort_bad, viol = [], viol + 1
        # ---- predicate
        small = all_seqs(4, 4)
        pairs = [(a, b) for a in small for b in small]
        n_all_pairs = len(pairs)
        if tier == "quick":
            pairs = [p for p in pairs if rng.random() < 0.10]
        for _ in range(300 if tier == "quick" else 3000):
            n = rng.randint(1, 12)
            a = [rng.randrange(rng.choice([3, 50, 2 ** 33, 2 ** 64])) for _ in range(n)]
            if rng.random() < 0.3:
                a[rng.randrange(n)] = rng.choice([2 ** 64 - 1, 2 ** 64 - 2, 2 ** 63, 0])
            b = list(a)
            rng.shuffle(b)
            k = rng.random()
            if k < 0.3:
                b[rng.randrange(n)] += 1
            elif k < 0.4:
                b.append(b[0])
            elif k < 0.5 and n > 1:
                # same set of values, different multiplicities
                b[0] = b[1]
            pairs.append((a, b))
        # pairs that agree on the cheap invariants (length and sum modulo 2^64) without being permutations of each other, and
        # permuted copies: (a) multisets of size 2 and 3 over a pool of powers of two and their neighbours, (b) multisets of
        # size 5 (thorough: 6) over {0..n-1}
        pool = [0, 1, 2 ** 31, 2 ** 32 - 1, 2 ** 32, 2 ** 32 + 1, 3 * 2 ** 31, 2 ** 33, 2 ** 63, 2 ** 64 - 1]
        n_struct = 0
        groups = [list(itertools.combinations_with_replacement(pool, 2)), list(itertools.combinations_with_replacement(pool, 3))]
        for n in ([5] if tier == "quick" else [5, 6]):
            groups.append(list(itertools.combinations_with_replacement(range(n), n)))
        for gi, g in enumerate(groups):
            by_sum = {}
            for ms in g:
                by_sum.setdefault(sum(ms) % 2 ** 64, []).append(ms)
            cand = []
            for cls in by_sum.values():
                for a in cls:
                    for b in cls:
                        cand.append((a, b))
            if len(cand) > (2500 if tier == "quick" else 20000):
                eq = [c for c in cand if c[0] == c[1]]
                ne = [c for c in cand if c[0] != c[1]]
                rng.shuffle(ne)
                cand = eq + ne[:(2500 if tier == "quick" else 20000) - len(eq)]
            for a, b in cand:
                a, b = list(a), list(b)
                rng.shuffle(a)
                rng.shuffle(b)
                pairs.append((a, b))
                n_struct += 1
        pchunks = [pairs[i::32] for i in range(32)]

        def run_perm(i):
            out = e3.compile_and_run(f"c20_perm_{i}", perm_program(pchunks[i])).strip()
            bad = []
            for (a, b), ch in zip(pchunks[i], out):
                want = sorted(a) == sorted(b)
                if (ch == "1") != want:
                    bad.append({"what": "is_permutation", "a": a, "b": b, "got": ch == "1", "expected": want})
            if len(out) != len(pchunks[i]):
                raise core.InfraError("predicate program printed a table of the wrong length")
            return bad
        try:
            perm_bad = [b for r in core.parallel(run_perm, list(range(32))) for b in r]
        except core.CompileFailure as e:
            p = core.save_replay(self.pid, {"property": self.pid, "what": "compile-failure", "log": e.log[:6000]})
            core.log(e.log[:2000])
            e1.violation(self.pid, p)
            perm_bad, viol = [], viol + 1
        for b in (sort_bad + perm_bad)[:5]:
            # smallest failing cases first
            pass
        bads = sorted(sort_bad, key=lambda b: len(b["sequence"])) + sorted(perm_bad, key=lambda b: len(b["a"]) + len(b["b"]))
        for b in bads[:3]:
            b["property"] = self.pid
            p = core.save_replay(self.pid, b)
            core.log(f"[C20] {json.dumps(b)[:400]}")
            e1.violation(self.pid, p)
            viol += 1
        nontriv = len({tuple(s) for s in seqs if len(set(s)) < len(s) and s != sorted(s)}) + len({(tuple(a), tuple(b)) for a, b in pairs if len(a) == len(b) and a != b})
        cov = {
            "evaluations": len(seqs) + len(pairs),
            "distinct_nontrivial": nontriv,
            "rule": self.rule,
            "samples": [{"sort": seqs[n_exh // 2]}, {"sort": seqs[-1]}, {"is_permutation": list(pairs[len(pairs) // 3])}, {"is_permutation": list(pairs[-1])}],
            "sort_sequences": len(seqs),
            "sort_exhaustive_sequences": n_exh,
            "predicate_pairs": len(pairs),
            "sort_dense_multisets": n_dense,
            "predicate_pairs_equal_length_and_sum": n_struct,
            "predicate_pairs_in_full_space": n_all_pairs,
            "exhaustive_subspaces": ["sort: all sequences of length <= 6 over {0..4}"] + (["predicate: all ordered pairs of sequences of length <= 4 over {0..3}"] if tier == "thorough" else []),
            "programs": 64,
            "exhaustive": False,
            "tools": core.tool_versions(),
        }
        core.write_evidence(self.pid, tier, seed, self.level, cov, time.time() - t0, violations=viol)
        if viol:
            return 1
        core.log(f"[C20] ok: {len(seqs)} sorts, {len(pairs)} predicate pairs, {time.time() - t0:.1f}s")
        return 0
