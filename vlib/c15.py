"""C15 (engine E7): no undefined behaviour on the documented domain, in debug and release builds; both agree.

The same generated programs (C12 operation histories; the zoo's API mix and lookups over the stack grammar; mixed-precision
interpolation on arbitrary bit patterns) are executed by harness binaries built in several configurations. Every run must
finish without sanitizer / valgrind / assertion report, and the digests over all observable results (values read, dump
bytes) must be identical across configurations.
"""
import json
import os
import time

from . import core, e1, zoo
from .e1 import H

UB = ["-fsanitize=undefined", "-fno-sanitize-recover=undefined"]
CONFIGS = [
    # name, compile flags, link flags, wrapper, shard subset (None = all)
    ("O1_assert_asan_ubsan", core.SAN, core.SAN_LINK, None, None),
    ("O2_ndebug", core.REL, [], None, None),
    ("O2_ndebug_ubsan", core.REL + UB, ["-fsanitize=undefined"], None, None),
    ("O2_ndebug_valgrind", core.REL, [], ["valgrind", "--quiet", "--error-exitcode=99", "--leak-check=no", "--track-origins=no"], "subset"),
]
THOROUGH_EXTRA = [("O0_assert_asan_ubsan", ["-O0", "-g1", "-fsanitize=address,undefined", "-fno-sanitize-recover=undefined"], core.SAN_LINK, None, None)]


class C15:
    pid = "C15"
    engine = "E7"
    level = "exploration"
    technique = "differential execution of generated programs across build configurations (assertions+ASan+UBSan / -O2 -DNDEBUG / +UBSan / valgrind), result digests compared"
    level_text = ("Generated programs (operation histories, API mixes and lookups over generated stacks, interpolation on arbitrary bit patterns) executed "
                  "in four build configurations; any sanitizer, valgrind or assertion report is a violation and all result digests must agree.")
    level_note = ("trusted: the sanitizer and valgrind runtimes; x86-64 SSE arithmetic without -march/-ffast-math is bit-reproducible across -O levels "
                  "(checked in the design phase), so digest equality is a sound oracle")
    rule = ("programs = (a) the C12 history interpreter's generated operation sequences (construction, writes, copy/move construction and assignment, "
            "layout conversion, dump/load, destruction), (b) for every stack of the grammar cover: build from generated configurations, dump, copy, "
            "move, assign into default-constructed fields, load, rebuild, lookups at generated in-domain coordinates, (c) lookups through every "
            "stack of the cover (C02 generator), (d) linear interpolation over arbitrary finite bit patterns (N=3, all M, mixed precisions), (e) in the "
            "two -DNDEBUG configurations also the harnesses of C04, C09, C10, C11, C14, C18 and C19 with their own oracles. Each "
            "program set runs in: -O1 + assertions + ASan + UBSan; -O2 -DNDEBUG; -O2 -DNDEBUG + UBSan; -O2 -DNDEBUG under valgrind memcheck (two "
            "shards of each set; all shards in the thorough tier, which adds -O0 + assertions + ASan + UBSan). Oracle: exit status 0 and no tool "
            "report everywhere; FNV digests of all values read and all dump bytes identical across configurations, per instantiation. "
            "non-trivial = program contains a copy assignment, a conversion or a load; evaluations = cases executed summed over configurations")

    def program_sets(self, tier, seed, cfg_name, flags, link):
        st, _ = zoo.quick_stacks(seed)   # thorough: the whole quick cover in every configuration
        if tier == "quick":
            st = st[:28]   # the fixed catalogue plus the first stacks of the cover; the thorough tier takes all
        bm = zoo.isa_flags()
        extra = []
        if True:   # every configuration (under valgrind they are skipped, see below)
            # the oracles of the cheap E1 harnesses must hold in every configuration (a defect that only exists with NDEBUG,
            # e.g. a side effect inside assert(), is invisible to their own assertion-enabled builds; one that only exists
            # with assertions, e.g. an over-strict debug check, is invisible to a release build)
            for tag, src, defs in (("nn", "prop_C04.cpp", []), ("affine", "prop_C09.cpp", []), ("clamp", "prop_C10.cpp", ["VF_GROUP=0"]), ("default", "prop_C11.cpp", []),
                                   ("numeric", "prop_C18.cpp", []), ("ndmap", "prop_C19.cpp", []), ("curves", "prop_C14.cpp", [])):
                extra.append(H(f"c15_{cfg_name}_{tag}", src, shards=8, flags=flags + bm, link_flags=link, defines=defs))
        return extra + [
            H(f"c15_{cfg_name}_hist", "prop_C12.cpp", shards=16, flags=flags, link_flags=link),
            zoo.ZooH(f"c15_{cfg_name}_api", st, "C13", shards=16, flags=flags + bm, link_flags=link),
            zoo.ZooH(f"c15_{cfg_name}_lookup", st, "C02", shards=16, flags=flags + bm, link_flags=link),
            H(f"c15_{cfg_name}_interp", "prop_C03.cpp", shards=8, flags=flags, link_flags=link, defines=["VF_GROUP=1"]),
        ]

    def setup(self):
        for name, flags, link, _, _ in CONFIGS[:1]:
            e1.build_all(self.program_sets("quick", 1, name, flags, link))

    def replay(self, path):
        c = json.load(open(path))
        core.log(json.dumps(c, indent=1)[:3000])
        # a digest disagreement or a tool report of one configuration: re-run that program set shard
        return self.check("quick", int(c.get("seed", 1)), only=c)

    def check(self, tier, seed, only=None):
        t0 = time.time()
        workdir = os.path.join(core.WORK, self.pid)
        os.makedirs(workdir, exist_ok=True)
        configs = CONFIGS + (THOROUGH_EXTRA if tier == "thorough" else [])
        viol = 0
        per_cfg = {}
        sets = {}
        try:
            for name, flags, link, _, _ in configs:
                sets[name] = self.program_sets(tier, seed, name, flags, link)
            e1.build_all([h for hs in sets.values() for h in hs])
        except core.CompileFailure as e:
            if e.in_repo:
                p = core.save_replay(self.pid, {"property": self.pid, "kind": "compile-failure", "harness": e.name, "log": e.log[:8000]})
                core.log(e.log[:2500])
                e1.violation(self.pid, p)
                core.write_evidence(self.pid, tier, seed, self.level, {"evaluations": 1, "distinct_nontrivial": 0, "rule": self.rule, "samples": [{"compile_failure": e.name}]}, time.time() - t0, violations=1)
                return 1
            raise core.InfraError(f"{e.name} does not compile: {e.logpath}\n{e.log[:2000]}")
        jobs = []
        for name, flags, link, wrapper, subset in configs:
            for h in sets[name]:
                if wrapper and not h.name.endswith(("_hist", "_api", "_lookup")):
                    continue   # valgrind evaluates long double in 64 bits: harnesses whose own oracle needs the real thing are not run under it
                shards = range(h.shards)
                if subset == "subset" and tier == "quick":
                    shards = [1, 9][: max(1, h.shards // 8)]
                for i in shards:
                    jobs.append((name, h, i, wrapper))

        def run_job(job):
            name, h, i, wrapper = job
            out = os.path.join(workdir, f"{h.name}.{i}.stats.json")
            rep = os.path.join(workdir, f"{h.name}.{i}.replay.json")
            for p in (out, rep):
                if os.path.exists(p):
                    os.remove(p)
            env = {"VERIF_TIER": "quick" if wrapper else tier, "VERIF_SEED": str(seed), "VERIF_SHARD": f"{i}/{h.shards}"}
            if h.name.endswith("_hist") and tier == "thorough":
                # the exhaustive length-4 enumeration over 3 slots belongs to C12's own thorough tier (43 min per build);
                # here: quick enumeration, but many more random histories, in every configuration
                env["VERIF_TIER"] = "quick"
                env["VERIF_C12_RANDOM"] = "1500" if wrapper else "15000"
            env.update(h.env)
            cmd = (wrapper or []) + [h.bin, "--out", out, "--replay-out", rep]
            rc, log, wall = core.run(cmd, env=env, timeout=4 * 3600)
            def load(path):
                try:
                    return json.load(open(path))
                except Exception:  # noqa  (a dying process may leave a truncated file)
                    return None
            stats, replay = load(out), load(rep)
            return {"cfg": name, "h": h, "shard": i, "rc": rc, "log": log, "stats": stats, "replay": replay, "wall": wall}
        # valgrind jobs first: they are the long poles
        jobs.sort(key=lambda j: 0 if j[3] else 1)
        results = core.parallel(run_job, jobs)
        evaluations = 0
        nontrivial = 0
        samples = []
        digests = {}   # (program set suffix, inst) -> {cfg: digest}
        for r in results:
            suffix = r["h"].name.split("_", 2)[2] if r["h"].name.count("_") >= 2 else r["h"].name
            suffix = r["h"].name[len("c15_" + r["cfg"] + "_"):]
            if r["rc"] != 0:
                if r["rc"] == 3:
                    raise core.InfraError(f"{r['h'].name} shard {r['shard']} harness error:\n{r['log'][-2000:]}")
                if r["rc"] == "timeout":
                    core.log(f"[C15] {r['h'].name} shard {r['shard']} hit the safety timeout: inconclusive")
                    continue
                case = dict(r["replay"] or {})
                case.update({"property": self.pid, "configuration": r["cfg"], "program_set": suffix, "shard": r["shard"], "exit": r["rc"], "seed": seed, "log_tail": r["log"][-6000:]})
                p = core.save_replay(self.pid, case)
                core.log(f"[C15] configuration {r['cfg']}, program set {suffix}, shard {r['shard']}: exit {r['rc']}\n{r['log'][-2500:]}")
                e1.violation(self.pid, p)
                viol += 1
                continue
            s = r["stats"]
            if s is None:
                raise core.InfraError(f"{r['h'].name} shard {r['shard']} exited 0 without statistics")
            evaluations += s["evaluations"]
            if r["cfg"] == configs[0][0]:
                nontrivial += s["distinct_nontrivial"]
                samples += s.get("samples", [])[:2]
            wrapped = any(c[0] == r["cfg"] and c[3] for c in configs)
            for inst, d in ({} if (wrapped and tier == "thorough") else s.get("digests", {})).items():
                key = (suffix, inst + (f"#shard{r['shard']}" if inst == "history" else ""))
                digests.setdefault(key, {})[r["cfg"]] = d
            per_cfg.setdefault(r["cfg"], {"cases": 0, "shards": 0})
            per_cfg[r["cfg"]]["cases"] += s["evaluations"]
            per_cfg[r["cfg"]]["shards"] += 1
        compared = 0
        for key, by in sorted(digests.items()):
            if len(by) < 2:
                continue
            compared += 1
            if len(set(by.values())) != 1:
                case = {"property": self.pid, "kind": "digest-disagreement", "program_set": key[0], "instantiation": key[1], "digests": by, "seed": seed}
                p = core.save_replay(self.pid, case)
                core.log(f"[C15] build configurations disagree on {key}: {by}")
                e1.violation(self.pid, p)
                viol += 1
        cov = {
            "evaluations": evaluations,
            "distinct_nontrivial": nontrivial,
            "rule": self.rule,
            "samples": e1.pick_samples(samples, 12),
            "configurations": per_cfg,
            "instantiations_with_digest_compared_across_configurations": compared,
            "programs": evaluations,
            "exhaustive": False,
            "tools": dict(core.tool_versions(), valgrind=os.popen("valgrind --version").read().strip()),
        }
        core.write_evidence(self.pid, tier, seed, self.level, cov, time.time() - t0, violations=viol,
                            assumptions=["x86-64 SSE, no -march / -ffast-math: results are bit-reproducible across optimisation levels", "the valgrind configuration runs a subset of the shards in the quick tier"])
        if viol:
            return 1
        if compared < 50:
            raise core.InfraError(f"only {compared} instantiations had digests to compare")
        core.log(f"[C15] ok: {evaluations} cases over {len(per_cfg)} configurations, {compared} digests compared, {time.time() - t0:.1f}s")
        return 0
