"""Engine E2 (the zoo): generated stack TUs + generic adapter + reference interpreter, linked into one driver binary."""
import json
import os

from . import core, stackgen
from .e1 import H

ZOO = os.path.join(core.HARNESS, "zoo")
MODES = ["mode_c02.cpp", "mode_c06.cpp", "mode_c17.cpp", "mode_c13.cpp", "mode_c08.cpp"]


def cpu_has_bmi2():
    try:
        return " bmi2 " in open("/proc/cpuinfo").read().replace("\n", " ")
    except Exception:  # noqa
        return False


def stack_flags():
    return core.SAN + (["-mbmi2"] if cpu_has_bmi2() else [])


def descriptor(layers):
    ls = []
    for l in layers:
        d = {k: l[k] for k in ("kind", "N", "M", "in", "out", "ref")}
        for k in ("perm", "target", "bmi2"):
            if k in l:
                d[k] = l[k]
        ls.append(d)
    return json.dumps({"layers": ls, "view_size": stackgen.view_size(layers)[0]}, separators=(",", ":"))


def tu_text(layers):
    sid = stackgen.stack_id(layers)
    return f'#include "zoo/adapter.hpp"\nZOO_REGISTER({sid}, R"json({descriptor(layers)})json", {stackgen.cpp_type(layers)})\n'


class ZooH(H):
    """The zoo binary for a given stack list, run in a given mode."""

    def __init__(self, name, stacks, mode, shards=16, env=None):
        super().__init__(name, "zoo/zoo_main.cpp", shards=shards, env=dict(env or {}, VERIF_ZOO_MODE=mode))
        self.stacks = stacks
        self.flags = stack_flags()

    def build(self):
        def one(layers):
            sid = stackgen.stack_id(layers)
            try:
                return core.compile_obj("zoo_" + sid, None, self.flags, src_text=tu_text(layers))
            except core.CompileFailure as e:
                # the TU is the generic adapter plus one type spelling derived from the grammar: a failure
                # means the library does not support an in-domain stack
                e.in_repo = True
                e.log = f"stack: {stackgen.cpp_type(layers)}\n" + e.log
                raise
        objs = core.parallel(one, self.stacks)
        drv = [core.compile_obj("zoo_main", os.path.join(ZOO, "zoo_main.cpp"), core.PLAIN)]
        drv += core.parallel(lambda m: core.compile_obj("zoo_" + m[:-4], os.path.join(ZOO, m), core.PLAIN), MODES)
        common = core.compile_obj("common", os.path.join(core.HARNESS, "common.cpp"), core.PLAIN)
        self.bin = core.link("zoo", objs + drv + [common], self.link_flags, self.libs)
        return self.bin


def quick_stacks(seed):
    stacks, missing = stackgen.cover(seed, budget=70, min_stacks=48)
    return stacks, missing
