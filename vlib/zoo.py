"""Engine E2 (the zoo): generated stack TUs + generic adapter + reference interpreter, linked into one driver binary."""
import json
import os
import random

from . import core, stackgen
from .e1 import H

ZOO = os.path.join(core.HARNESS, "zoo")
MODES = ["mode_c02.cpp", "mode_c06.cpp", "mode_c17.cpp", "mode_c13.cpp", "mode_c08.cpp", "mode_c07.cpp"]
GOLDEN = os.path.join(core.ROOT, "golden")


def cpu_has_bmi2():
    try:
        return " bmi2 " in open("/proc/cpuinfo").read().replace("\n", " ")
    except Exception:  # noqa
        return False


def isa_flags():
    """Extra instruction-set flags the host supports: code guarded by __SSE4_1__, __AVX2__, __LZCNT__, __BMI2__ ... is only
    compiled in such builds (no FMA: contraction would change floating-point results)."""
    try:
        have = set(open("/proc/cpuinfo").read().split())
    except Exception:  # noqa
        return []
    want = [("sse4_1", "-msse4.1"), ("avx", "-mavx"), ("avx2", "-mavx2"), ("abm", "-mlzcnt"), ("bmi1", "-mbmi"), ("bmi2", "-mbmi2"), ("popcnt", "-mpopcnt")]
    return [f for k, f in want if k in have]


def stack_flags():
    return core.SAN + isa_flags()


def descriptor(layers, extra=None):
    ls = []
    for l in layers:
        d = {k: l[k] for k in ("kind", "N", "M", "in", "out", "ref")}
        for k in ("perm", "target", "bmi2"):
            if k in l:
                d[k] = l[k]
        ls.append(d)
    d = {"layers": ls, "view_size": stackgen.view_size(layers)[0]}
    if extra:
        d.update(extra)
    return json.dumps(d, separators=(",", ":"))


def tu_text(layers, extra=None):
    sid = stackgen.stack_id(layers)
    return '#include "zoo/adapter.hpp"\nZOO_REGISTER(%s, R"json(%s)json", %s)\n' % (sid, descriptor(layers, extra), stackgen.cpp_type(layers))


class ZooH(H):
    """The zoo binary for a given stack list, run in a given mode. `extras` maps stack id -> extra descriptor fields."""

    def __init__(self, name, stacks, mode, shards=16, env=None, extras=None, flags=None, link_flags=None):
        super().__init__(name, "zoo/zoo_main.cpp", shards=shards, env=dict(env or {}, VERIF_ZOO_MODE=mode), link_flags=link_flags)
        self.stacks = stacks
        self.extras = extras or {}
        self.flags = flags if flags is not None else stack_flags()

    def build(self):
        def one(layers):
            sid = stackgen.stack_id(layers)
            try:
                return core.compile_obj("zoo_" + sid, None, self.flags, src_text=tu_text(layers, self.extras.get(sid)))
            except core.CompileFailure as e:
                # the TU is the generic adapter plus one type spelling derived from the grammar: a failure
                # means the library does not support an in-domain stack
                e.in_repo = True
                e.log = f"stack: {stackgen.cpp_type(layers)}\n" + e.log
                raise
        objs = core.parallel(one, self.stacks)
        drv = [core.compile_obj("zoo_main", os.path.join(ZOO, "zoo_main.cpp"), core.PLAIN)]
        drv += core.parallel(lambda m: core.compile_obj("zoo_" + m[:-4], os.path.join(ZOO, m), core.PLAIN), MODES)
        common = core.compile_obj("common", os.path.join(core.HARNESS, "common.cpp"), core.PLAIN)
        self.bin = core.link("zoo", objs + drv + [common], self.link_flags, self.libs)
        return self.bin


def quick_stacks(seed):
    stacks, missing = stackgen.cover(seed, budget=100, min_stacks=48)
    return stacks, missing


def thorough_stacks(seed):
    """The quick cover first (same seed, same order), then seeded stacks that add any new coverage feature."""
    stacks, missing = stackgen.cover(seed, budget=300, min_stacks=280)
    return stacks, missing


def fixed_stacks():
    return [stackgen.finish(s) for s in stackgen.FIXED]


def c07_pairs(seed):
    """Array-backed stacks of the cover (plus the fixed ones) with a sibling differing in storage width and/or
    interpolation method. Returns (stacks, extras)."""
    rng = random.Random(f"{seed}:C07:pairs")
    cover, _ = quick_stacks(seed)
    stacks, extras, seen = [], {}, set()

    def add(l):
        t = stackgen.cpp_type(l)
        if t not in seen:
            seen.add(t)
            stacks.append(l)

    for l in cover:
        variants = [(True, False), (False, True), (True, True)]
        rng.shuffle(variants)
        for sw, si in variants:
            v = stackgen.sibling(l, sw, si)
            if v is None:
                continue
            add(l)
            add(v)
            extras.setdefault(stackgen.stack_id(l), {"pair": stackgen.stack_id(v), "pair_kind": ("width" if sw else "") + ("+interp" if si else "")})
            extras.setdefault(stackgen.stack_id(v), {"pair": stackgen.stack_id(l), "pair_kind": ("width" if sw else "") + ("+interp" if si else "")})
            break
    for l in fixed_stacks():   # golden files exist for these
        add(l)
    return stacks, extras
