"""Engine E3: the generated input is a program, the oracle is the compiler's verdict or a table of
compile-time results printed at run time and compared with values computed independently in Python."""
import hashlib
import os
import subprocess

from . import core

HDR = '#include "cov.hpp"\n#include <sstream>\n'


def syntax_only(text, extra_flags=()):
    """Returns (ok, log). Results are cached by content and tree key."""
    key = core.sha(text, core.harness_digest(), " ".join(extra_flags))[:24]
    d = core.cache_dir()
    import threading
    okf, logf = os.path.join(d, f"syn-{key}.ok"), os.path.join(d, f"syn-{key}.log")
    src = os.path.join(d, f"syn-{key}-{os.getpid()}-{threading.get_ident()}.cpp")
    if os.path.exists(okf):
        return True, ""
    if os.path.exists(logf):
        return False, open(logf).read()
    with open(src, "w") as fh:
        fh.write(text)
    cmd = ["g++"] + core.STD + ["-fsyntax-only", "-w"] + list(extra_flags) + core.INC + [src]
    p = subprocess.run(cmd, stdout=subprocess.PIPE, stderr=subprocess.STDOUT, text=True)
    if p.returncode == 0:
        open(okf, "w").close()
        os.remove(src)
        return True, ""
    os.remove(src)
    with open(logf + f".tmp{os.getpid()}-{threading.get_ident()}", "w") as fh:
        fh.write(p.stdout[:200000])
    os.replace(logf + f".tmp{os.getpid()}-{threading.get_ident()}", logf)
    return False, p.stdout


def compile_and_run(name, text, flags=None, timeout=600):
    """Compile a generated program (cached) and run it; returns stdout."""
    obj = core.compile_obj(name, None, flags or ["-O0"], src_text=text)
    exe = core.link(name, [obj], [])
    rc, out, _ = core.run([exe], timeout=timeout)
    if rc != 0:
        raise core.InfraError(f"generated program {name} exited {rc}:\n{out[-2000:]}")
    return out
