"""Build cache, process running, evidence writing, known findings: shared by all checks."""
import concurrent.futures as cf
import hashlib
import json
import os
import re
import shutil
import subprocess
import sys
import time

ROOT = os.path.dirname(os.path.dirname(os.path.abspath(__file__)))
REPO = os.environ.get("VERIF_REPO", "/repo")
HARNESS = os.path.join(ROOT, "harness")
BUILD = os.path.join(ROOT, "build")
CACHE = os.path.join(BUILD, "cache")
# VERIF_OUT redirects everything a run writes (evidence, replays, scratch) so that
# sensitivity runs against scratch copies of the repository (VERIF_REPO) can run
# concurrently without touching /verif/evidence.
_OUT = os.environ.get("VERIF_OUT")
EVIDENCE = os.path.join(_OUT or ROOT, "evidence")
REPLAYS = os.path.join(_OUT or ROOT, "replays")
WORK = os.path.join(_OUT or BUILD, "work")
REGRESS = os.path.join(ROOT, "regress")
KNOWN = os.path.join(ROOT, "KNOWN_FINDINGS.txt")
NCPU = int(os.environ.get("VERIF_JOBS", "16"))

INC = ["-I" + os.path.join(REPO, "lib/core"), "-I" + HARNESS]
STD = ["-std=gnu++20"]
SAN = ["-O1", "-g1", "-fsanitize=address,undefined", "-fno-sanitize-recover=undefined", "-fno-omit-frame-pointer"]
SAN_LINK = ["-fsanitize=address,undefined"]
REL = ["-O2", "-g1", "-DNDEBUG"]          # the suite's own configuration
PLAIN = ["-O1", "-g1"]

SAN_ENV = {
    "ASAN_OPTIONS": "detect_leaks=1:abort_on_error=0:exitcode=97:allocator_may_return_null=0:detect_stack_use_after_return=1",
    "UBSAN_OPTIONS": "print_stacktrace=1:halt_on_error=1:abort_on_error=1",
    "LSAN_OPTIONS": "exitcode=96",
}


class InfraError(Exception):
    """Harness / infrastructure failure: never reported as a property verdict."""


class CompileFailure(Exception):
    def __init__(self, name, log, in_repo, logpath):
        super().__init__(name)
        self.name, self.log, self.in_repo, self.logpath = name, log, in_repo, logpath


def sha(*parts):
    h = hashlib.sha256()
    for p in parts:
        h.update(p if isinstance(p, bytes) else str(p).encode())
        h.update(b"\0")
    return h.hexdigest()


_tree_key = None


def tree_key():
    """Hash of every file under /repo/lib: any edit there invalidates every cached object."""
    global _tree_key
    if _tree_key is None:
        h = hashlib.sha256()
        for base, dirs, files in sorted(os.walk(os.path.join(REPO, "lib"))):
            dirs.sort()
            for f in sorted(files):
                p = os.path.join(base, f)
                h.update(p.encode())
                with open(p, "rb") as fh:
                    h.update(fh.read())
        _tree_key = h.hexdigest()[:20]
    return _tree_key


def cache_dir():
    d = os.path.join(CACHE, tree_key())
    os.makedirs(d, exist_ok=True)
    return d


def prune_cache(keep=6, min_age_s=6 * 3600):
    """Keep the current tree key, the most recent few others and anything touched recently (disk is limited;
    concurrent runs against scratch trees must not lose their objects)."""
    if not os.path.isdir(CACHE):
        return
    cur = tree_key()
    now = time.time()
    ds = [d for d in os.listdir(CACHE) if d != cur]
    ds.sort(key=lambda d: os.path.getmtime(os.path.join(CACHE, d)), reverse=True)
    for d in ds[keep:]:
        if now - os.path.getmtime(os.path.join(CACHE, d)) > min_age_s:
            shutil.rmtree(os.path.join(CACHE, d), ignore_errors=True)


def _harness_digest():
    h = hashlib.sha256()
    for base, dirs, files in sorted(os.walk(HARNESS)):
        dirs.sort()
        for f in sorted(files):
            if f.endswith((".hpp", ".h")):
                with open(os.path.join(base, f), "rb") as fh:
                    h.update(f.encode())
                    h.update(fh.read())
    return h.hexdigest()


_hd = None


def harness_digest():
    global _hd
    if _hd is None:
        _hd = _harness_digest()
    return _hd


_ERR = re.compile(r"^(/[^:\s]+):(\d+):(\d+:)? (fatal )?error:", re.M)


def first_error_in_repo(log):
    """True when the first compiler error is located in the library's own headers."""
    m = _ERR.search(log)
    if not m:
        # "required from here" style: look for any error line
        return False
    return os.path.realpath(m.group(1)).startswith(os.path.realpath(REPO) + "/")


import threading  # noqa: E402

_build_locks = {}
_build_locks_guard = threading.Lock()


def _lock_for(key):
    with _build_locks_guard:
        return _build_locks.setdefault(key, threading.Lock())


def compile_obj(name, src, flags, compiler="g++", src_text=None):
    """Compile one TU to an object in the content-addressed cache; returns its path."""
    if src_text is None:
        with open(src, "rb") as fh:
            k0 = fh.read()
    else:
        k0 = src_text.encode()
    with _lock_for(sha(k0, compiler, " ".join(flags))):
        return _compile_obj(name, src, flags, compiler, src_text)


def _compile_obj(name, src, flags, compiler="g++", src_text=None):
    if src_text is None:
        with open(src, "rb") as fh:
            body = fh.read()
    else:
        body = src_text.encode()
    key = sha(body, harness_digest(), compiler, " ".join(flags))[:24]
    out = os.path.join(cache_dir(), f"{name}-{key}.o")
    if os.path.exists(out):
        return out
    if src_text is not None:
        src = os.path.join(cache_dir(), f"{name}-{key}.cpp")
        with open(src, "w") as fh:
            fh.write(src_text)
    tmp = out + f".tmp{os.getpid()}-{threading.get_ident()}"
    cmd = [compiler] + STD + flags + INC + ["-c", src, "-o", tmp]
    p = subprocess.run(cmd, stdout=subprocess.PIPE, stderr=subprocess.STDOUT, text=True)
    if p.returncode != 0:
        logpath = os.path.join(cache_dir(), f"{name}-{key}.compile.log")
        with open(logpath, "w") as fh:
            fh.write(" ".join(cmd) + "\n" + p.stdout)
        raise CompileFailure(name, p.stdout, first_error_in_repo(p.stdout), logpath)
    os.replace(tmp, out)
    return out


def link(name, objs, flags, libs=(), compiler="g++"):
    key = sha(*[os.path.basename(o) for o in objs], " ".join(flags), " ".join(libs))[:24]
    out = os.path.join(cache_dir(), f"{name}-{key}.bin")
    if os.path.exists(out):
        return out
    tmp = out + f".tmp{os.getpid()}-{threading.get_ident()}"
    cmd = [compiler] + flags + list(objs) + ["-o", tmp] + list(libs)
    p = subprocess.run(cmd, stdout=subprocess.PIPE, stderr=subprocess.STDOUT, text=True)
    if p.returncode != 0:
        raise InfraError(f"link of {name} failed:\n{p.stdout}")
    os.replace(tmp, out)
    return out


def parallel(fn, items, jobs=None):
    """Run fn over items in a thread pool; exceptions propagate (first one wins)."""
    jobs = jobs or NCPU
    out = [None] * len(items)
    with cf.ThreadPoolExecutor(max_workers=jobs) as ex:
        futs = {ex.submit(fn, it): i for i, it in enumerate(items)}
        err = None
        for f in cf.as_completed(futs):
            try:
                out[futs[f]] = f.result()
            except Exception as e:  # noqa
                if err is None:
                    err = e
        if err is not None:
            raise err
    return out


def run_cancellable(cmd, env, timeout, cancel, grace=90):
    """Like run(), but the process is ended `grace` seconds after `cancel` (a threading.Event) is set by a sibling
    that has already found a violation: a mutated library that hangs in one shard must not hold the verdict back
    for the whole safety timeout. Returns rc "cancelled" in that case."""
    e = dict(os.environ)
    e.update(SAN_ENV)
    if env:
        e.update(env)
    t0 = time.time()
    import tempfile
    with tempfile.TemporaryFile() as out:
        p = subprocess.Popen(cmd, stdout=out, stderr=subprocess.STDOUT, env=e)
        cancelled_at = None
        while True:
            try:
                p.wait(timeout=2)
                break
            except subprocess.TimeoutExpired:
                pass
            now = time.time()
            if cancel.is_set() and cancelled_at is None:
                cancelled_at = now
            if cancelled_at is not None and now - cancelled_at > grace:
                p.kill()
                p.wait()
                out.seek(0)
                return "cancelled", out.read().decode(errors="replace"), now - t0
            if timeout and now - t0 > timeout:
                p.kill()
                p.wait()
                out.seek(0)
                return "timeout", out.read().decode(errors="replace"), now - t0
        out.seek(0)
        return p.returncode, out.read().decode(errors="replace"), time.time() - t0


def run(cmd, env=None, timeout=None, cwd=None, stdin=None):
    e = dict(os.environ)
    e.update(SAN_ENV)
    if env:
        e.update(env)
    t0 = time.time()
    try:
        p = subprocess.run(cmd, stdout=subprocess.PIPE, stderr=subprocess.STDOUT, env=e, timeout=timeout, cwd=cwd, input=stdin)
        return p.returncode, p.stdout.decode(errors="replace"), time.time() - t0
    except subprocess.TimeoutExpired as ex:
        return "timeout", (ex.stdout or b"").decode(errors="replace"), time.time() - t0


# ------------------------------------------------------------------ known findings
def known_findings():
    """Returns (open, fixed): lists of dicts parsed from KNOWN_FINDINGS.txt (never written at run time)."""
    op, fx = [], []
    if os.path.exists(KNOWN):
        for line in open(KNOWN):
            line = line.strip()
            if not line or line.startswith("#"):
                continue
            m = re.match(r"open: property=(\S+) key=(\S+) (.*)$", line)
            if m:
                op.append({"property": m.group(1), "key": m.group(2), "what": m.group(3)})
                continue
            m = re.match(r"fixed: property=(\S+) (\S+) (.*)$", line)
            if m:
                fx.append({"property": m.group(1), "commit": m.group(2), "what": m.group(3)})
    return op, fx


def open_keys(pid):
    return [k for k in known_findings()[0] if k["property"] == pid]


# ------------------------------------------------------------------ evidence
def write_evidence(pid, tier, seed, level, coverage, wall, violations=0, assumptions=()):
    os.makedirs(EVIDENCE, exist_ok=True)
    ev = {
        "property_id": pid,
        "tier": tier,
        "seed": int(seed),
        "level": level,
        "coverage": coverage,
        "assumptions": list(assumptions),
        "wall_s": round(wall, 2),
        "violations": violations,
    }
    cov = ev["coverage"]
    cov.setdefault("tree_key", tree_key())
    p = os.path.join(EVIDENCE, pid + ".json")
    with open(p + ".tmp", "w") as fh:
        json.dump(ev, fh, indent=1, sort_keys=False)
        fh.write("\n")
    os.replace(p + ".tmp", p)
    return p


def save_replay(pid, payload, suffix=".json"):
    """Store a replay file under /verif/replays/<ID>/<hash><suffix>; returns the path."""
    d = os.path.join(REPLAYS, pid)
    os.makedirs(d, exist_ok=True)
    if isinstance(payload, (dict, list)):
        data = json.dumps(payload, indent=1, sort_keys=True).encode()
    elif isinstance(payload, str):
        data = payload.encode()
    else:
        data = payload
    p = os.path.join(d, hashlib.sha256(data).hexdigest()[:16] + suffix)
    with open(p, "wb") as fh:
        fh.write(data)
    return p


def tool_versions():
    out = {}
    for tool, cmd in (("g++", ["g++", "--version"]), ("clang++", ["clang++", "--version"])):
        try:
            out[tool] = subprocess.run(cmd, stdout=subprocess.PIPE, text=True).stdout.splitlines()[0]
        except Exception:  # noqa
            out[tool] = "unavailable"
    return out


def say(*a):
    print(*a, flush=True)


def log(*a):
    print(*a, file=sys.stderr, flush=True)
