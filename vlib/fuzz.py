"""Engine E5: coverage-guided byte-level fuzzing (libFuzzer, clang 14) of the stream constructor, one loader type per
binary, semantic oracle inside the target (harness/zoo/fuzz_load.cpp). Loader types avoid linear.hpp, which clang 14
cannot compile (P0634); interpolators have no on-disk footprint, so nothing is lost."""
import glob
import json
import os
import re

from . import core, stackgen, zoo

FUZZ_FLAGS = ["-g", "-O1", "-Wno-c++11-narrowing", "-fsanitize=fuzzer-no-link,address,undefined", "-fno-sanitize-recover=undefined"]


def loaders():
    return [l for l in zoo.fixed_stacks() if not any(x["kind"] == "linear" for x in l)]


def build(layers):
    sid = stackgen.stack_id(layers)
    so = core.compile_obj("fuzz_stack_" + sid, None, FUZZ_FLAGS, compiler="clang++", src_text="#define VF_NO_LINEAR 1\n" + zoo.tu_text(layers))
    to = core.compile_obj("fuzz_load", os.path.join(zoo.ZOO, "fuzz_load.cpp"), FUZZ_FLAGS + ["-I" + zoo.ZOO], compiler="clang++")
    return core.link("fuzz_" + sid, [so, to], ["-fsanitize=fuzzer,address,undefined"], compiler="clang++")


def campaign(pid, seed, runs, with_seeds=True):
    """Returns (stats list, artifacts list). Each loader: one run from valid seed files, one from an empty corpus."""
    ls = loaders()
    bins = core.parallel(build, ls)
    jobs = []
    for l, b in zip(ls, bins):
        sid = stackgen.stack_id(l)
        for mode in ("seeded", "empty"):
            jobs.append((l, b, sid, mode))

    def one(job):
        l, b, sid, mode = job
        corpus = os.path.join(core.WORK, pid, f"corpus-{sid}-{mode}")
        os.makedirs(corpus, exist_ok=True)
        for f in glob.glob(os.path.join(corpus, "*")):
            os.remove(f)
        if mode == "seeded":
            g = json.load(open(os.path.join(zoo.GOLDEN, sid + ".json")))
            data = bytes.fromhex(g["bytes_hex"])
            open(os.path.join(corpus, "valid"), "wb").write(data)
            open(os.path.join(corpus, "half"), "wb").write(data[: len(data) // 2])
        os.makedirs(os.path.join(core.REPLAYS, pid), exist_ok=True)
        prefix = os.path.join(core.REPLAYS, pid, f"fuzz-{sid}-")
        n = runs if mode == "seeded" else runs // 4
        cmd = [b, f"-runs={n}", f"-seed={seed if seed else 1}", "-max_len=4096", "-timeout=20", "-rss_limit_mb=3000", f"-artifact_prefix={prefix}", "-print_final_stats=1", corpus]
        rc, log, wall = core.run(cmd, env={"ASAN_OPTIONS": "detect_leaks=1:allocator_may_return_null=1", "UBSAN_OPTIONS": "print_stacktrace=1:halt_on_error=1"}, timeout=6 * 3600)
        m = re.search(r"FUZZ-STATS execs=(\d+) loaded=(\d+) excluded_absurd_count=(\d+)", log)
        arts = re.findall(r"Test unit written to (\S+)", log)
        # only crash-/leak- artifacts are violations; slow-unit / timeout / oom are load noise
        arts = [a for a in arts if os.path.basename(a)[len(f"fuzz-{sid}-"):].startswith(("crash-", "leak-"))]
        return {"stack": stackgen.cpp_type(l), "sid": sid, "mode": mode, "rc": rc, "execs": int(m.group(1)) if m else 0, "loaded": int(m.group(2)) if m else 0,
                "excluded": int(m.group(3)) if m else 0, "artifacts": arts, "log_tail": log[-3000:], "wall": wall}
    res = core.parallel(one, jobs)
    return res


def replay(path):
    """Re-run a saved artifact fuzz-<sid>-crash-... through its loader; returns True if it still fails."""
    m = re.match(r"fuzz-(S[0-9a-f]{12})-", os.path.basename(path))
    if not m:
        raise core.InfraError(f"not a fuzz artifact name: {path}")
    for l in loaders():
        if stackgen.stack_id(l) == m.group(1):
            b = build(l)
            rc, log, _ = core.run([b, path], timeout=600)
            core.log(log[-3000:])
            return rc != 0
    raise core.InfraError(f"artifact {path} names an unknown loader type")


def history_campaign(pid, seed, runs, jobs=8):
    """Coverage-guided fuzzing of the C12 history interpreter: `jobs` independent libFuzzer processes (different
    -seed values derived from VERIF_SEED), each from an empty corpus. Returns the list of per-job results."""
    flags = FUZZ_FLAGS + ["-DVF_FUZZ_TARGET", "-DVF_NO_LINEAR"]
    obj = core.compile_obj("fuzz_history", os.path.join(core.HARNESS, "prop_C12.cpp"), flags, compiler="clang++")
    common = core.compile_obj("common", os.path.join(core.HARNESS, "common.cpp"), core.PLAIN, compiler="clang++")
    b = core.link("fuzz_history", [obj, common], ["-fsanitize=fuzzer,address,undefined"], libs=["-lrapidcheck"], compiler="clang++")

    def one(k):
        corpus = os.path.join(core.WORK, pid, f"corpus-history-{k}")
        os.makedirs(corpus, exist_ok=True)
        for f in glob.glob(os.path.join(corpus, "*")):
            os.remove(f)
        os.makedirs(os.path.join(core.REPLAYS, pid), exist_ok=True)
        prefix = os.path.join(core.REPLAYS, pid, f"fuzz-history-{k}-")
        # bounded by executions and by wall-clock (whichever comes first; running out of time only means fewer histories)
        cmd = [b, f"-runs={runs}", "-max_total_time=1800", f"-seed={(seed if seed else 1) * 100 + k}", "-max_len=640", "-timeout=30", "-rss_limit_mb=3000", f"-artifact_prefix={prefix}", "-print_final_stats=1", corpus]
        rc, log, wall = core.run(cmd, env={"ASAN_OPTIONS": "detect_leaks=1", "UBSAN_OPTIONS": "print_stacktrace=1:halt_on_error=1"}, timeout=6 * 3600)
        m = re.search(r"stat::number_of_executed_units:\s*(\d+)", log)
        cov = re.findall(r"cov: (\d+)", log)
        arts = [a for a in re.findall(r"Test unit written to (\S+)", log) if os.path.basename(a)[len(f"fuzz-history-{k}-"):].startswith(("crash-", "leak-"))]
        return {"job": k, "rc": rc, "execs": int(m.group(1)) if m else 0, "coverage_edges": int(cov[-1]) if cov else 0, "artifacts": arts, "log_tail": log[-3000:], "wall": wall, "bin": b}
    return core.parallel(one, list(range(jobs)))


def history_replay(path):
    flags = FUZZ_FLAGS + ["-DVF_FUZZ_TARGET", "-DVF_NO_LINEAR"]
    obj = core.compile_obj("fuzz_history", os.path.join(core.HARNESS, "prop_C12.cpp"), flags, compiler="clang++")
    common = core.compile_obj("common", os.path.join(core.HARNESS, "common.cpp"), core.PLAIN, compiler="clang++")
    b = core.link("fuzz_history", [obj, common], ["-fsanitize=fuzzer,address,undefined"], libs=["-lrapidcheck"], compiler="clang++")
    rc, log, _ = core.run([b, path], timeout=600)
    core.log(log[-3000:])
    return rc != 0
