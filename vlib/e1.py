"""Engine E1: rapidcheck harness TUs (harness/prop_*.cpp) built with sanitizers, run in shards."""
import glob
import json
import os
import time

from . import core
from .core import InfraError, CompileFailure


class H:
    """One harness translation unit."""

    def __init__(self, name, src, shards=1, flags=None, link_flags=None, libs=None, compiler="g++", defines=(), env=None, extra_inc=()):
        self.name = name
        self.src = os.path.join(core.HARNESS, src)
        self.shards = shards
        self.flags = list(flags if flags is not None else core.SAN) + ["-D" + d for d in defines] + ["-I" + i for i in extra_inc]
        self.link_flags = list(link_flags if link_flags is not None else core.SAN_LINK)
        self.libs = list(libs if libs is not None else ["-lrapidcheck"])
        self.compiler = compiler
        self.env = dict(env or {})
        self.bin = None

    def build(self):
        common = core.compile_obj("common", os.path.join(core.HARNESS, "common.cpp"), core.PLAIN, compiler=self.compiler)
        obj = core.compile_obj(self.name, self.src, self.flags, compiler=self.compiler)
        self.bin = core.link(self.name, [obj, common], self.link_flags, self.libs, compiler=self.compiler)
        return self.bin


def build_all(hs):
    # common.o first so that parallel builds do not race on it
    by_comp = {}
    for h in hs:
        by_comp.setdefault(h.compiler, h)
    for comp in by_comp:
        core.compile_obj("common", os.path.join(core.HARNESS, "common.cpp"), core.PLAIN, compiler=comp)
    core.parallel(lambda h: h.build(), hs)


import threading  # noqa: E402


def _run_shard(args):
    h, i, tier, seed, known, workdir = args[:6]
    cancel = args[6] if len(args) > 6 else None
    out = os.path.join(workdir, f"{h.name}.{i}.stats.json")
    rep = os.path.join(workdir, f"{h.name}.{i}.replay.json")
    for p in (out, rep):
        if os.path.exists(p):
            os.remove(p)
    env = {"VERIF_TIER": tier, "VERIF_SEED": str(seed), "VERIF_SHARD": f"{i}/{h.shards}", "VERIF_KNOWN": ";".join(known)}
    env.update(h.env)
    if cancel is not None:
        rc, log, wall = core.run_cancellable([h.bin, "--out", out, "--replay-out", rep], env, tier_timeout(tier), cancel)
        if rc not in (0, 3, "timeout", "cancelled"):   # a violation (not an inconclusive or infrastructure outcome) ends the siblings early
            cancel.set()
    else:
        rc, log, wall = core.run([h.bin, "--out", out, "--replay-out", rep], env=env, timeout=tier_timeout(tier))
    stats = None
    if os.path.exists(out):
        try:
            stats = json.load(open(out))
        except Exception:  # noqa
            stats = None
    replay = None
    if os.path.exists(rep):
        try:
            replay = json.load(open(rep))
        except Exception:  # noqa
            replay = None
    return {"h": h, "shard": i, "rc": rc, "log": log, "wall": wall, "stats": stats, "replay": replay}


def tier_timeout(tier):
    return 3600 if tier == "quick" else 6 * 3600


def replay_once(h, path):
    rc, log, _ = core.run([h.bin, "--replay-in", path, "--replay-out", os.devnull], env=dict(h.env), timeout=1800)
    if rc == 3:
        raise InfraError(f"replay of {path} with {h.name} reported a harness error:\n{log[-2000:]}")
    return rc, log


def merge_stats(results):
    m = {"evaluations": 0, "distinct_nontrivial": 0, "excluded_not_compared": 0, "labels": {}, "per_inst": {}, "per_inst_nontrivial": {}, "samples": [], "exhaustive": [], "notes": [], "digests": {}}
    for r in results:
        s = r["stats"]
        if not s:
            continue
        m["evaluations"] += s["evaluations"]
        m["distinct_nontrivial"] += s["distinct_nontrivial"]
        m["excluded_not_compared"] += s.get("excluded_not_compared", 0)
        for k in ("labels", "per_inst", "per_inst_nontrivial"):
            for a, b in s.get(k, {}).items():
                m[k][a] = m[k].get(a, 0) + b
        for a, b in s.get("digests", {}).items():
            m["digests"][a + "#" + str(r["shard"]) if a == "history" else a] = b
        m["samples"] += s.get("samples", [])
        m["exhaustive"] += s.get("exhaustive", [])
        m["notes"] += s.get("notes", [])
    return m


def pick_samples(samples, n=40):
    """At most n samples, one per instantiation first, then round-robin."""
    by = {}
    for s in samples:
        by.setdefault(s.get("inst", ""), []).append(s)
    out, rnd = [], 0
    while len(out) < n and any(len(v) > rnd for v in by.values()):
        for k in sorted(by):
            if len(by[k]) > rnd and len(out) < n:
                out.append(by[k][rnd])
        rnd += 1
    return out


def violation(pid, replay_path):
    core.say(f"VIOLATION property={pid} replay={replay_path}")


def confirm_and_report(pid, h, case, log, died):
    """Save the explicit case, re-execute it 3 times in fresh processes, report."""
    case = dict(case or {})
    case["property"] = pid
    case["harness"] = h.name
    case["flags"] = " ".join(h.flags)
    path = core.save_replay(pid, case)
    logpath = path[:-5] + ".log"
    with open(logpath, "w") as fh:
        fh.write(log[-20000:])
    fails = 0
    if "inst" in case:
        for _ in range(3):
            rc, rlog = replay_once(h, path)
            if rc != 0:
                fails += 1
    core.log(f"[{pid}] failing case saved to {path} (log {logpath}); replayed 3x, failed {fails}x")
    if fails < 3 and not died:
        # The harnesses are deterministic functions of (tree, seed): a failure that does not reproduce from its
        # explicit case means the library's behaviour on this input is not deterministic (uninitialised data, UB).
        core.log(f"[{pid}] NOTE: the explicit case failed in only {fails} of 3 re-executions: non-deterministic behaviour of the code under test on this input")
    # sanitizer / assertion reports are kept even when a re-run is clean
    violation(pid, path)
    return True


def run_regressions(pid, hs):
    """Shrunk cases of repaired defects run first, in every tier."""
    n = 0
    byname = {h.name: h for h in hs}
    for p in sorted(glob.glob(os.path.join(core.REGRESS, pid, "*.json"))):
        c = json.load(open(p))
        h = byname.get(c.get("harness"))
        if h is None:
            continue
        rc, log = replay_once(h, p)
        n += 1
        if rc != 0:
            core.log(f"[{pid}] regression case {p} fails again:\n{log[-3000:]}")
            violation(pid, p)
            return n, True
    return n, False


def check(pid, tier, seed, hs, level, rule, assumptions=(), extra_cov=None, min_eval=1, failures=None):
    """Generic E1 check. Returns process exit code. `failures` (a list) receives the failing (harness, case) pairs."""
    t0 = time.time()
    workdir = os.path.join(core.WORK, pid)
    os.makedirs(workdir, exist_ok=True)
    core.prune_cache()
    try:
        build_all(hs)
    except CompileFailure as e:
        if e.in_repo:
            core.log(f"[{pid}] harness {e.name} no longer compiles and the first error is inside the library:\n{e.log[:3000]}")
            p = core.save_replay(pid, {"property": pid, "kind": "compile-failure", "harness": e.name, "log": e.log[:20000]})
            violation(pid, p)
            core.write_evidence(pid, tier, seed, level, {"evaluations": 1, "distinct_nontrivial": 0, "rule": rule, "samples": [{"compile_failure": e.name}]}, time.time() - t0, violations=1, assumptions=assumptions)
            return 1
        raise InfraError(f"harness {e.name} does not compile (error outside the library): see {e.logpath}\n{e.log[:3000]}")
    known = [k["key"] for k in core.open_keys(pid)]
    nreg, bad = run_regressions(pid, hs)
    if bad:
        core.write_evidence(pid, tier, seed, level, {"evaluations": nreg, "distinct_nontrivial": 0, "rule": rule, "samples": [{"regression_tier": "failed"}]}, time.time() - t0, violations=1, assumptions=assumptions)
        return 1
    cancel = threading.Event()
    jobs = [(h, i, tier, seed, known, workdir, cancel) for h in hs for i in range(h.shards)]
    results = core.parallel(_run_shard, jobs)
    m = merge_stats(results)
    viol = 0
    for r in results:
        if r["rc"] == 0:
            continue
        if r["rc"] == "cancelled":
            m["notes"].append(f"{r['h'].name} shard {r['shard']}: stopped after another shard had reported a violation")
            continue
        if r["rc"] == 3 or r["rc"] == "timeout":
            if r["rc"] == "timeout":
                core.log(f"[{pid}] {r['h'].name} shard {r['shard']} hit the safety timeout: inconclusive")
                m["notes"].append(f"{r['h'].name} shard {r['shard']}: budget exhausted (inconclusive)")
                m["budget_exhausted"] = True
                continue
            raise InfraError(f"{r['h'].name} shard {r['shard']} reported a harness error:\n{r['log'][-3000:]}")
        died = r["rc"] != 1
        core.log(f"[{pid}] {r['h'].name} shard {r['shard']} exit {r['rc']}:\n{r['log'][-4000:]}")
        if r["replay"] is None and not died:
            raise InfraError(f"{r['h'].name} exited 1 without writing a replay case")
        if confirm_and_report(pid, r["h"], r["replay"] or {"note": "no case captured; see log"}, r["log"], died):
            viol += 1
            if failures is not None:
                failures.append((r["h"], r["replay"] or {}))
    for k in core.open_keys(pid):
        core.say(f"KNOWN-FINDING: property={pid} {k['key']} {k['what']}")
    cov = {
        "evaluations": m["evaluations"] + nreg,
        "distinct_nontrivial": m["distinct_nontrivial"],
        "rule": rule,
        "samples": pick_samples(m["samples"]),
        "labels": m["labels"],
        "per_instantiation": m["per_inst"],
        "per_instantiation_nontrivial": m["per_inst_nontrivial"],
        "exhaustive_subspaces": m["exhaustive"],
        "exhaustive": False,
        "excluded_not_compared": m["excluded_not_compared"],
        "regression_cases_replayed": nreg,
        "notes": m["notes"],
        "harnesses": [{"name": h.name, "shards": h.shards, "flags": " ".join(h.flags), "compiler": h.compiler} for h in hs],
        "tools": core.tool_versions(),
    }
    if m.get("budget_exhausted"):
        cov["budget_exhausted"] = True
    if extra_cov:
        cov.update(extra_cov)
    core.write_evidence(pid, tier, seed, level, cov, time.time() - t0, violations=viol, assumptions=assumptions)
    if viol:
        return 1
    if m["evaluations"] < min_eval:
        raise InfraError(f"[{pid}] only {m['evaluations']} cases executed (< {min_eval}): check is not exercising the property")
    core.log(f"[{pid}] ok: {m['evaluations']} cases, {m['distinct_nontrivial']} distinct non-trivial, {time.time() - t0:.1f}s")
    return 0


def replay(pid, hs, path):
    c = json.load(open(path))
    byname = {h.name: h for h in hs}
    h = byname.get(c.get("harness"))
    if h is None:
        raise InfraError(f"replay {path} names unknown harness {c.get('harness')}")
    try:
        build_all([h])
    except CompileFailure as e:
        if e.in_repo:
            violation(pid, path)
            return 1
        raise InfraError(str(e.log[:2000]))
    rc, log = replay_once(h, path)
    core.log(log[-4000:])
    if rc != 0:
        violation(pid, path)
        return 1
    core.say(f"replay passes: property={pid} {path}")
    return 0
