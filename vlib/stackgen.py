"""Layer grammar of covfie stacks: well-kinded stack generation, descriptors, C++ spelling, view size, pairwise cover.

The descriptor of a stack is produced here from the grammar alone (it is never read back from the library's type
aliases), so a wrong alias in the library disagrees with it.

A stack is a list of layers, outermost first. Each layer is a dict:
  kind        array | identity | constant | strided | morton | hilbert | clamp | backup | shuffle | dereference |
              covariant_cast | linear | nearest_neighbour | affine
  N, in       input dimensionality and coordinate scalar of THIS layer ('flat' index layers have N = 1)
  M, out      output dimensionality and scalar of THIS layer
  ref         output is a reference into storage (array, storage orders, clamp/shuffle/nn/affine above them)
  plus kind-specific: perm (shuffle), target (covariant_cast), bmi2 (morton)
"""
import itertools
import random

SCALAR_SIZE = {"float": 4, "double": 8, "int": 4, "unsigned": 4, "long": 8, "size_t": 8}
CPP_SCALAR = {"float": "float", "double": "double", "int": "int", "unsigned": "unsigned int", "long": "long", "size_t": "std::size_t"}
REAL = ("float", "double")
INTEGER = ("size_t", "unsigned", "int", "long")
INDEX = ("size_t", "unsigned", "int")   # coordinate scalars of storage orders

PRIMS = ("array", "identity", "constant")
ORDERS = ("strided", "morton", "hilbert")
WRAPS = ("clamp", "backup", "shuffle", "dereference", "covariant_cast")
INTERPS = ("linear", "nearest_neighbour")
ALL_KINDS = PRIMS + ORDERS + WRAPS + INTERPS + ("affine",)


def is_real(s):
    return s in REAL


def vec(s, n):
    return f"covfie::vector::vector_d<{CPP_SCALAR[s]},{n}>"


def cpp_type(layers):
    """C++ spelling of the stack (outermost first)."""
    l = layers[0]
    k = l["kind"]
    inner = cpp_type(layers[1:]) if len(layers) > 1 else None
    B = "covfie::backend::"
    if k == "array":
        if l.get("user_desc"):
            # an application-defined vector descriptor (any type with `type` and `size` satisfies the concept)
            return f"{B}array<vf::user_desc<{CPP_SCALAR[l['out']]},{l['M']}>>"
        return f"{B}array<{vec(l['out'], l['M'])}>"
    if k == "identity":
        return f"{B}identity<{vec(l['in'], l['N'])}>"
    if k == "constant":
        return f"{B}constant<{vec(l['in'], l['N'])},{vec(l['out'], l['M'])}>"
    if k == "strided":
        return f"{B}strided<{vec(l['in'], l['N'])},{inner}>"
    if k == "morton":
        return f"{B}morton<{vec(l['in'], l['N'])},{inner},{'true' if l['bmi2'] else 'false'}>"
    if k == "hilbert":
        return f"{B}hilbert<{vec(l['in'], l['N'])},{inner}>"
    if k in ("clamp", "backup", "dereference", "affine"):
        return f"{B}{k}<{inner}>"
    if k == "shuffle":
        return f"{B}shuffle<{inner},std::index_sequence<{','.join(map(str, l['perm']))}>>"
    if k == "covariant_cast":
        return f"{B}covariant_cast<{CPP_SCALAR[l['target']]},{inner}>"
    if k in INTERPS:
        return f"{B}{k}<{inner},{vec(l['in'], l['N'])}>"
    raise ValueError(k)


def _align(off, a):
    return (off + a - 1) // a * a


def view_size(layers):
    """sizeof(non_owning_data_t) as laid out by the x86-64 ABI; returns (size, alignment)."""
    l = layers[0]
    k = l["kind"]
    if k == "array":
        return 16, 8
    if k == "identity":
        return 1, 1
    if k == "constant":
        s = SCALAR_SIZE[l["out"]]
        return s * l["M"], s
    isz, ial = view_size(layers[1:])
    members = []   # (size, align) in declaration order before the backend member
    if k in ORDERS:
        members.append((8 * l["N"], 8))
    elif k == "clamp":
        s = SCALAR_SIZE[l["in"]]
        members += [(s * l["N"], s), (s * l["N"], s)]
    elif k == "backup":
        s = SCALAR_SIZE[l["in"]]
        t = SCALAR_SIZE[l["out"]]
        members += [(s * l["N"], s), (s * l["N"], s), (t * l["M"], t)]
    elif k == "affine":
        s = SCALAR_SIZE[l["in"]]
        members.append((s * l["N"] * (l["N"] + 1), s))
    members.append((isz, ial))
    off, al = 0, 1
    for sz, a in members:
        off = _align(off, a) + sz
        al = max(al, a)
    return _align(off, al), al


def check_kinds(layers):
    """Independent re-check of well-kindedness of a finished stack (used by tests of the generator itself)."""
    for i, l in enumerate(layers):
        inner = layers[i + 1] if i + 1 < len(layers) else None
        k = l["kind"]
        if k in PRIMS:
            assert inner is None
        else:
            assert inner is not None
        if k in ORDERS:
            assert inner["kind"] == "array" and l["in"] in INDEX
            if k == "hilbert":
                assert l["N"] == 2
        if k == "linear":
            assert is_real(l["in"]) and is_real(inner["out"]) and l["N"] == inner["N"] and not is_real(inner["in"])
        if k == "nearest_neighbour":
            assert is_real(l["in"]) and l["N"] == inner["N"] and not is_real(inner["in"])
        if k == "affine":
            assert is_real(l["in"])
    return True


def make_stack(rng, max_depth=5, force=None):
    """Derive one well-kinded stack. `force` optionally fixes the innermost choice / a required adjacent pair."""
    N = rng.choice([1, 2, 2, 3, 3, 4])
    M = rng.choice([1, 1, 2, 3, 3, 4])
    layers = []   # built innermost first, reversed at the end
    prim = rng.choice(["array", "array", "array", "identity", "constant"]) if not force or "prim" not in force else force["prim"]
    if prim == "array":
        T = rng.choice(REAL)
        I = rng.choice(["size_t", "size_t", "unsigned", "int"])
        order = rng.choice(["strided", "strided", "morton", "morton", "hilbert"]) if not force or "order" not in force else force["order"]
        if order == "hilbert":
            N = 2
        # conversions inside the adapter go through size_t coordinates; other index scalars still exercise lookups
        layers.append({"kind": "array", "N": 1, "in": "size_t", "M": M, "out": T, "ref": True})
        lay = {"kind": order, "N": N, "in": I, "M": M, "out": T, "ref": True}
        if order == "morton":
            lay["bmi2"] = rng.choice([True, False])
        layers.append(lay)
    elif prim == "identity":
        X = rng.choice(["float", "double", "int", "size_t", "long", "float"])
        layers.append({"kind": "identity", "N": N, "in": X, "M": N, "out": X, "ref": False})
    else:
        X = rng.choice(["float", "double", "int", "size_t", "float"])
        T = rng.choice(["float", "double", "float", "int"])
        layers.append({"kind": "constant", "N": N, "in": X, "M": M, "out": T, "ref": False})
    depth = rng.randint(len(layers), max_depth)
    interp_done = False
    while len(layers) < depth:
        top = layers[-1]
        n, cin, m, cout, ref = top["N"], top["in"], top["M"], top["out"], top["ref"]
        choices = ["clamp", "backup", "shuffle", "dereference", "covariant_cast"]
        if not interp_done and not is_real(cin):
            # interpolators turn real coordinates into the integer coordinates of the level beneath them
            choices += ["nearest_neighbour", "nearest_neighbour"]
            if is_real(cout):
                choices += ["linear", "linear"]
        if is_real(cin):
            choices += ["affine", "affine"]
        k = rng.choice(choices)
        if k == "clamp":
            layers.append({"kind": k, "N": n, "in": cin, "M": m, "out": cout, "ref": ref})
        elif k == "backup":
            layers.append({"kind": k, "N": n, "in": cin, "M": m, "out": cout, "ref": False})
        elif k == "shuffle":
            perm = list(range(n))
            rng.shuffle(perm)
            layers.append({"kind": k, "N": n, "in": cin, "M": m, "out": cout, "ref": ref, "perm": perm})
        elif k == "dereference":
            layers.append({"kind": k, "N": n, "in": cin, "M": m, "out": cout, "ref": False})
        elif k == "covariant_cast":
            tgt = rng.choice(["float", "double", "double", "float", "int", "long"])
            layers.append({"kind": k, "N": n, "in": cin, "M": m, "out": tgt, "ref": False, "target": tgt})
        elif k in INTERPS:
            R = rng.choice(REAL)
            interp_done = True
            layers.append({"kind": k, "N": n, "in": R, "M": m, "out": cout, "ref": ref if k == "nearest_neighbour" else False})
        elif k == "affine":
            layers.append({"kind": k, "N": n, "in": cin, "M": m, "out": cout, "ref": ref})
    layers.reverse()
    check_kinds(layers)
    if view_size(layers)[0] > 256:
        return None
    return layers


def adjacent_pairs(layers):
    return {(layers[i]["kind"], layers[i + 1]["kind"]) for i in range(len(layers) - 1)}


def well_kinded_pairs():
    """All ordered pairs (outer, inner) of adjacent layer kinds the grammar can produce."""
    pairs = set()
    for o in ORDERS:
        pairs.add((o, "array"))
    uppers = list(WRAPS) + list(INTERPS) + ["affine"]
    lowers = list(ORDERS) + ["identity", "constant"] + list(WRAPS) + list(INTERPS) + ["affine"]
    for u in uppers:
        for lo in lowers:
            if u in INTERPS and (lo in INTERPS or lo == "affine"):
                continue           # interpolators sit on integer-coordinate levels; at most one per stack
            if u == "linear" and lo == "identity":
                continue           # identity<X^N> has one scalar: integer coordinates exclude a floating output
            if u == "affine" and lo in ORDERS:
                continue           # storage orders take integer coordinates, the affine layer real ones
            pairs.add((u, lo))
    return pairs


def features(layers):
    """Coverage features of a stack: adjacent kind pairs plus (kind, N!=M) and scalar variety."""
    # an adjacent pair counts as covered only where its effect is observable: a constant backend ignores the
    # coordinate it is given, so pairs above it (other than the pair with the constant itself) do not count
    observable = layers[-1]["kind"] != "constant"
    f = set(("pair",) + p for p in adjacent_pairs(layers) if observable or p[1] == "constant")
    top = layers[0]
    for l in layers:
        f.add(("kind", l["kind"], "N!=M" if top["N"] != top["M"] else "N==M"))
        f.add(("scalar", l["kind"], l["in"]))
    f.add(("N", top["N"]))
    f.add(("M", top["M"]))
    if layers[-1]["kind"] != "constant":
        # a constant backend ignores its coordinate: only other primitives make coordinate-path errors observable
        for l in layers[:-1]:
            if l["kind"] not in ORDERS:
                f.add(("obs", l["kind"], l["N"]))
    return f


def wanted_features():
    w = {("pair",) + p for p in well_kinded_pairs()}
    for k in WRAPS + INTERPS + ("affine",):
        for n in (1, 2, 3, 4):
            w.add(("obs", k, n))
    return w


FIXED = [
    # stacks the examples / benchmarks / tests spell out
    [("affine", {}), ("linear", {"in": "float"}), ("strided", {"N": 3, "in": "size_t"}), ("array", {"M": 3, "out": "float"})],
    [("affine", {}), ("nearest_neighbour", {"in": "float"}), ("strided", {"N": 3, "in": "size_t"}), ("array", {"M": 3, "out": "float"})],
    [("affine", {}), ("linear", {"in": "float"}), ("morton", {"N": 3, "in": "size_t", "bmi2": False}), ("array", {"M": 3, "out": "float"})],
    [("affine", {}), ("nearest_neighbour", {"in": "float"}), ("hilbert", {"N": 2, "in": "size_t"}), ("array", {"M": 2, "out": "float"})],
    [("clamp", {}), ("affine", {}), ("linear", {"in": "float"}), ("strided", {"N": 2, "in": "size_t"}), ("array", {"M": 2, "out": "double"})],
    [("linear", {"in": "double"}), ("clamp", {}), ("strided", {"N": 3, "in": "size_t"}), ("array", {"M": 1, "out": "float"})],
    [("backup", {}), ("shuffle", {"perm": [1, 0]}), ("covariant_cast", {"target": "double"}), ("strided", {"N": 2, "in": "size_t"}), ("array", {"M": 3, "out": "float"})],
    [("covariant_cast", {"target": "double"}), ("identity", {"N": 1, "in": "float"})],
    [("shuffle", {"perm": [2, 0, 1]}), ("dereference", {}), ("strided", {"N": 3, "in": "int"}), ("array", {"M": 2, "out": "double"})],
    [("affine", {}), ("constant", {"N": 3, "in": "float", "M": 1, "out": "float"})],
    [("covariant_cast", {"target": "float"}), ("nearest_neighbour", {"in": "float"}), ("strided", {"N": 1, "in": "size_t"}), ("array", {"M": 3, "out": "double"})],
    [("backup", {}), ("clamp", {}), ("morton", {"N": 2, "in": "size_t", "bmi2": True}), ("array", {"M": 1, "out": "double"})],
    [("dereference", {}), ("hilbert", {"N": 2, "in": "unsigned"}), ("array", {"M": 4, "out": "double"})],
]


# stacks whose view is within 8*N bytes of the 256-byte limit of field_view: a layer whose view grows by a few words
# pushes them over the limit (they are part of every cover, but not of the fixed catalogue behind the golden files)
# storage described by an application-defined vector descriptor instead of vector_d (part of every cover)
USER_DESC = [
    [("affine", {}), ("nearest_neighbour", {"in": "float"}), ("strided", {"N": 3, "in": "size_t"}), ("array", {"M": 3, "out": "double", "user_desc": True})],
    [("strided", {"N": 2, "in": "size_t"}), ("array", {"M": 2, "out": "float", "user_desc": True})],
]

FAT = [
    [("backup", {}), ("backup", {}), ("backup", {}), ("strided", {"N": 3, "in": "size_t"}), ("array", {"M": 3, "out": "double"})],
    [("backup", {}), ("backup", {}), ("strided", {"N": 4, "in": "size_t"}), ("array", {"M": 4, "out": "double"})],
    [("backup", {}), ("backup", {}), ("backup", {}), ("morton", {"N": 3, "in": "size_t", "bmi2": False}), ("array", {"M": 3, "out": "double"})],
]


def finish(spec):
    """Turn a (kind, params) list (outermost first) into full layer dicts by propagating kinds upward."""
    layers = []
    for kind, p in reversed(spec):
        l = {"kind": kind}
        l.update(p)
        if kind == "array":
            l.update({"N": 1, "in": "size_t", "ref": True})
        elif kind == "identity":
            l.update({"M": l["N"], "out": l["in"], "ref": False})
        elif kind == "constant":
            l.update({"ref": False})
        else:
            b = layers[-1]
            if kind in ORDERS:
                l.update({"M": b["M"], "out": b["out"], "ref": True})
            else:
                l.setdefault("N", b["N"])
                if kind not in INTERPS:
                    l["in"] = b["in"]
                l["M"] = b["M"]
                l["out"] = l["target"] if kind == "covariant_cast" else b["out"]
                l["ref"] = b["ref"] if kind in ("clamp", "shuffle", "nearest_neighbour", "affine") else False
        layers.append(l)
    layers.reverse()
    check_kinds(layers)
    return layers


def stack_id(layers):
    import hashlib
    return "S" + hashlib.sha256(cpp_type(layers).encode()).hexdigest()[:12]


def cover(seed, budget, min_stacks=0, max_depth=5):
    """Greedy feature cover: keep drawing seeded random stacks, keep those that add coverage, until every
    adjacent-kind pair is covered (and at least min_stacks are chosen) or `budget` stacks are chosen."""
    rng = random.Random(f"{seed}:stack-cover")
    chosen, seen_types, covered = [], set(), set()
    for spec in FIXED + FAT + USER_DESC:
        l = finish(spec)
        if view_size(l)[0] > 256:
            raise AssertionError("a catalogue stack exceeds the view limit: " + cpp_type(l))
        chosen.append(l)
        seen_types.add(cpp_type(l))
        covered |= features(l)
    want_pairs = wanted_features()
    tries = 0
    while len(chosen) < budget and tries < 200000:
        tries += 1
        l = make_stack(rng, max_depth)
        if l is None:
            continue
        t = cpp_type(l)
        if t in seen_types:
            continue
        f = features(l)
        new = f - covered
        need_pairs = want_pairs - covered
        if (new & want_pairs) or (not need_pairs and len(chosen) < min_stacks and new) or (not need_pairs and len(chosen) < min_stacks and tries % 7 == 0):
            chosen.append(l)
            seen_types.add(t)
            covered |= f
        if not (want_pairs - covered) and len(chosen) >= min_stacks:
            break
    return chosen, sorted(want_pairs - covered)


def all_kind_sequences(max_depth):
    """Every well-kinded sequence of layer kinds up to max_depth layers (C13 thorough tier).
    Returns a list of (kinds outermost-first, base) where base says whether the primitive's coordinate scalar
    is an integer or a real type ('int' / 'real')."""
    out = []

    def grow(seq, level, out_real, interp_done, base, depth_left):
        out.append((list(reversed(seq)), base))
        if depth_left == 0:
            return
        for k in WRAPS:
            grow(seq + [k], level, True if k == "covariant_cast" else out_real, interp_done, base, depth_left - 1)
        if level == "int" and not interp_done:
            grow(seq + ["nearest_neighbour"], "real", out_real, True, base, depth_left - 1)
            if out_real:
                grow(seq + ["linear"], "real", out_real, True, base, depth_left - 1)
        if level == "real":
            grow(seq + ["affine"], level, out_real, interp_done, base, depth_left - 1)

    for o in ORDERS:
        grow(["array", o], "int", True, False, "int", max_depth - 2)
    grow(["identity"], "int", False, False, "int", max_depth - 1)
    grow(["identity"], "real", True, False, "real", max_depth - 1)
    grow(["constant"], "int", True, False, "int", max_depth - 1)
    grow(["constant"], "real", True, False, "real", max_depth - 1)
    return out


def from_kinds(kinds, base, rng):
    """Assign N, M, scalars, permutations to a kind sequence (outermost first); None if the view would exceed 256 bytes."""
    inner_first = list(reversed(kinds))
    N = rng.choice([1, 2, 3, 4])
    M = rng.choice([1, 2, 3, 4])
    layers = []
    prim = inner_first[0]
    rest = inner_first[1:]
    if prim == "array":
        order = rest[0]
        rest = rest[1:]
        if order == "hilbert":
            N = 2
        T = rng.choice(REAL)
        layers.append({"kind": "array", "N": 1, "in": "size_t", "M": M, "out": T, "ref": True})
        lay = {"kind": order, "N": N, "in": rng.choice(INDEX), "M": M, "out": T, "ref": True}
        if order == "morton":
            lay["bmi2"] = rng.choice([True, False])
        layers.append(lay)
    elif prim == "identity":
        X = rng.choice(["int", "size_t", "long", "unsigned"]) if base == "int" else rng.choice(REAL)
        layers.append({"kind": "identity", "N": N, "in": X, "M": N, "out": X, "ref": False})
    else:
        X = rng.choice(["int", "size_t", "unsigned"]) if base == "int" else rng.choice(REAL)
        layers.append({"kind": "constant", "N": N, "in": X, "M": M, "out": rng.choice(REAL), "ref": False})
    for idx, k in enumerate(rest):
        top = layers[-1]
        n, cin, m, cout, ref = top["N"], top["in"], top["M"], top["out"], top["ref"]
        if k == "clamp":
            layers.append({"kind": k, "N": n, "in": cin, "M": m, "out": cout, "ref": ref})
        elif k in ("backup", "dereference"):
            layers.append({"kind": k, "N": n, "in": cin, "M": m, "out": cout, "ref": False})
        elif k == "shuffle":
            perm = list(range(n))
            rng.shuffle(perm)
            layers.append({"kind": k, "N": n, "in": cin, "M": m, "out": cout, "ref": ref, "perm": perm})
        elif k == "covariant_cast":
            # a later linear layer needs a floating output
            need_real = "linear" in rest[idx + 1:]
            tgt = rng.choice(REAL) if need_real else rng.choice(["float", "double", "int", "long"])
            layers.append({"kind": k, "N": n, "in": cin, "M": m, "out": tgt, "ref": False, "target": tgt})
        elif k in INTERPS:
            layers.append({"kind": k, "N": n, "in": rng.choice(REAL), "M": m, "out": cout, "ref": ref if k == "nearest_neighbour" else False})
        elif k == "affine":
            layers.append({"kind": k, "N": n, "in": cin, "M": m, "out": cout, "ref": ref})
    layers.reverse()
    check_kinds(layers)
    if view_size(layers)[0] > 256:
        return None
    return layers


def sibling(layers, swap_width, swap_interp):
    """The same stack with the storage scalar width and/or the interpolation method exchanged (C07);
    None if the stack has no array storage, contains a layer whose on-disk payload follows the storage scalar
    (backup), or the variant is not well-kinded."""
    import copy
    if layers[-1]["kind"] != "array" or any(l["kind"] == "backup" for l in layers):
        return None
    v = copy.deepcopy(layers)
    if swap_interp:
        if not any(l["kind"] in INTERPS for l in v):
            return None
        for l in v:
            if l["kind"] in INTERPS:
                l["kind"] = "linear" if l["kind"] == "nearest_neighbour" else "nearest_neighbour"
    if swap_width:
        other = {"float": "double", "double": "float"}
        old = v[-1]["out"]
        # the stored scalar propagates upwards until a cast replaces it
        for l in reversed(v):
            if l["kind"] == "covariant_cast":
                break
            l["out"] = other[old]
    # reference-ness above a changed interpolator
    ref = True
    for l in reversed(v):
        if l["kind"] in ("array",) + ORDERS:
            ref = True
        elif l["kind"] in ("clamp", "shuffle", "nearest_neighbour", "affine"):
            pass
        else:
            ref = False
        l["ref"] = ref
    try:
        check_kinds(v)
    except AssertionError:
        return None
    if view_size(v)[0] > 256 or cpp_type(v) == cpp_type(layers):
        return None
    return v
