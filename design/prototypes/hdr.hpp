#include <covfie/core/backend/primitive/array.hpp>
#include <covfie/core/backend/primitive/identity.hpp>
#include <covfie/core/backend/primitive/constant.hpp>
#include <covfie/core/backend/transformer/strided.hpp>
#include <covfie/core/backend/transformer/morton.hpp>
#include <covfie/core/backend/transformer/hilbert.hpp>
#include <covfie/core/backend/transformer/linear.hpp>
#include <covfie/core/backend/transformer/nearest_neighbour.hpp>
#include <covfie/core/backend/transformer/affine.hpp>
#include <covfie/core/backend/transformer/clamp.hpp>
#include <covfie/core/backend/transformer/backup.hpp>
#include <covfie/core/backend/transformer/shuffle.hpp>
#include <covfie/core/backend/transformer/covariant_cast.hpp>
#include <covfie/core/backend/transformer/dereference.hpp>
#include <covfie/core/field.hpp>
#include <sstream>
#include <cstdio>
using namespace covfie;
