#include "hdr.hpp"
// user-defined probe backend: counts queries, returns deterministic function of coordinate
namespace vf {
struct probe_stats { unsigned long queries=0; };
template <typename In, typename Out> struct probe {
  using this_t = probe<In,Out>; static constexpr bool is_initial = true;
  using contravariant_input_t = covfie::vector::array_vector_d<In>;
  using covariant_output_t = covfie::vector::array_vector_d<Out>;
  struct configuration_t { probe_stats* stats; };
  struct owning_data_t { using parent_t=this_t; probe_stats* m_stats=nullptr; owning_data_t()=default;
    explicit owning_data_t(configuration_t c):m_stats(c.stats){}
    explicit owning_data_t(covfie::parameter_pack<configuration_t>&& p):m_stats(p.x.stats){}
    explicit owning_data_t(covfie::parameter_pack<owning_data_t>&& p):m_stats(p.x.m_stats){}
    configuration_t get_configuration() const { return {m_stats}; }
    static owning_data_t read_binary(std::istream&){ return owning_data_t(); }
    static void write_binary(std::ostream&, const owning_data_t&){} };
  struct non_owning_data_t { using parent_t=this_t; probe_stats* m_stats; non_owning_data_t(const owning_data_t& o):m_stats(o.m_stats){}
    typename covariant_output_t::vector_t at(typename contravariant_input_t::vector_t c) const { m_stats->queries++; typename covariant_output_t::vector_t r; for(std::size_t j=0;j<Out::size;j++){ typename Out::type acc=typename Out::type(j+1); for(std::size_t i=0;i<In::size;i++) acc = acc*31 + (typename Out::type)c[i]; r[j]=acc;} return r; } };
};
}
using P = vf::probe<vector::vector_d<int,3>, vector::float2>;
static_assert(concepts::field_backend<P>);
using B = backend::backup<P>;
int main(){ vf::probe_stats st; field<B> f(make_parameter_pack(B::configuration_t{{0,0,0},{4,5,6},{-1.f,-2.f}}, P::configuration_t{&st})); field<B>::view_t v(f);
 auto a=v.at(1,2,3); printf("in: %f %f q=%lu\n",a[0],a[1],st.queries); auto b=v.at(5,2,3); printf("out: %f %f q=%lu\n",b[0],b[1],st.queries); auto c=v.at(4,5,6); printf("edge: %f q=%lu\n",c[0],st.queries); }
