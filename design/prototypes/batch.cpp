#include "hdr.hpp"
template <typename B> void api(field<B>& a, field<B>& b, std::iostream& s){ using F=field<B>;
 static_assert(concepts::field_backend<B>); static_assert(std::is_trivially_copyable_v<typename F::view_t>);
 F x; F y(a); F z(std::move(y)); a=b; a=std::move(b); typename F::view_t v(a); typename F::view_t w(v); (void)w; typename F::coordinate_t c{}; auto&& r=v.at(c); (void)r; a.dump(s); F l(s); auto k=a.backend().get_configuration(); (void)k; (void)x; (void)z; (void)l; }
#define USE(...) template void api<__VA_ARGS__>(field<__VA_ARGS__>&, field<__VA_ARGS__>&, std::iostream&);
using A1=backend::array<vector::float1>; using A3=backend::array<vector::double3>;
using S2=backend::strided<vector::size2,A3>; using M3=backend::morton<vector::size3,A1,false>; using H2=backend::hilbert<vector::size2,A3>;
USE(backend::affine<backend::linear<backend::clamp<M3>>>)
USE(backend::backup<backend::shuffle<backend::covariant_cast<float,S2>,std::index_sequence<1,0>>>)
USE(backend::clamp<backend::affine<backend::constant<vector::double2,vector::float3>>>)
USE(backend::affine<backend::nearest_neighbour<backend::backup<backend::dereference<H2>>>>)
USE(backend::dereference<backend::clamp<backend::linear<backend::shuffle<S2,std::index_sequence<1,0>>>>>)
USE(backend::covariant_cast<double,backend::affine<backend::affine<backend::linear<M3>>>>)
USE(backend::shuffle<backend::backup<backend::nearest_neighbour<backend::clamp<S2>>>,std::index_sequence<1,0>>)
USE(backend::backup<backend::backup<backend::clamp<backend::clamp<backend::identity<vector::float4>>>>>)
USE(backend::affine<backend::clamp<backend::linear<backend::covariant_cast<float,backend::identity<vector::int3>>>>>)
USE(backend::linear<backend::backup<backend::clamp<backend::dereference<H2>>>>)
int main(){}
