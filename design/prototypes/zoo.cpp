#include "hdr.hpp"
#include <vector>
#include <tuple>
#include <memory>
typedef long double ld;
using Cfg = std::vector<ld>;           // flat numeric config of one layer
// ---- layer traits: config marshalling only (kind info comes from generator's descriptor)
template <typename B> struct LT;       // make(cfg)->configuration_t ; read(configuration_t)->Cfg
template <typename V> V vec_from(const Cfg& c, size_t off){ V v; for(size_t i=0;i<V::dimensions;i++) v[i]=(typename V::value_type)c[off+i]; return v; }
template <typename V> void vec_to(Cfg& c, const V& v){ for(size_t i=0;i<V::dimensions;i++) c.push_back((ld)v[i]); }
template <typename S, typename B> struct LT<backend::strided<S,B>>{ using L=backend::strided<S,B>; static typename L::configuration_t make(const Cfg&c){return vec_from<typename L::configuration_t>(c,0);} static Cfg read(const typename L::configuration_t&k){Cfg c; vec_to(c,k); return c;} };
template <typename S, typename B, bool U> struct LT<backend::morton<S,B,U>>{ using L=backend::morton<S,B,U>; static typename L::configuration_t make(const Cfg&c){return vec_from<typename L::configuration_t>(c,0);} static Cfg read(const typename L::configuration_t&k){Cfg c; vec_to(c,k); return c;} };
template <typename B> struct LT<backend::clamp<B>>{ using L=backend::clamp<B>; using V=typename L::contravariant_input_t::vector_t; static typename L::configuration_t make(const Cfg&c){return {vec_from<V>(c,0),vec_from<V>(c,V::dimensions)};} static Cfg read(const typename L::configuration_t&k){Cfg c; vec_to(c,k.min); vec_to(c,k.max); return c;} };
template <typename B> struct LT<backend::backup<B>>{ using L=backend::backup<B>; using V=typename L::contravariant_input_t::vector_t; using O=typename L::covariant_output_t::vector_t; static typename L::configuration_t make(const Cfg&c){return {vec_from<V>(c,0),vec_from<V>(c,V::dimensions),vec_from<O>(c,2*V::dimensions)};} static Cfg read(const typename L::configuration_t&k){Cfg c; vec_to(c,k.min); vec_to(c,k.max); vec_to(c,k.default_value); return c;} };
template <typename B> struct LT<backend::affine<B>>{ using L=backend::affine<B>; static constexpr size_t N=L::contravariant_input_t::dimensions; using T=typename L::contravariant_input_t::scalar_t; static typename L::configuration_t make(const Cfg&c){ typename L::configuration_t m; for(size_t i=0;i<N;i++)for(size_t j=0;j<=N;j++) m(i,j)=(T)c[i*(N+1)+j]; return m;} static Cfg read(const typename L::configuration_t&k){Cfg c; for(size_t i=0;i<N;i++)for(size_t j=0;j<=N;j++) c.push_back((ld)k(i,j)); return c;} };
template <typename B> struct Mono { static std::monostate make(const Cfg&){return {};} static Cfg read(const std::monostate&){return {};} };
template <typename B, typename V> struct LT<backend::linear<B,V>> : Mono<B>{};
template <typename B, typename V> struct LT<backend::nearest_neighbour<B,V>> : Mono<B>{};
template <typename B, typename P> struct LT<backend::shuffle<B,P>> : Mono<B>{};
template <typename B> struct LT<backend::dereference<B>> : Mono<B>{};
template <typename T, typename B> struct LT<backend::covariant_cast<T,B>> : Mono<B>{};
template <typename V> struct LT<backend::identity<V>> : Mono<V>{};
template <typename V, typename I> struct LT<backend::array<V,I>>{ using L=backend::array<V,I>; static typename L::configuration_t make(const Cfg&c){return vec_from<typename L::configuration_t>(c,0);} static Cfg read(const typename L::configuration_t&k){Cfg c; vec_to(c,k); return c;} };
template <typename I, typename O> struct LT<backend::constant<I,O>>{ using L=backend::constant<I,O>; static typename L::configuration_t make(const Cfg&c){return vec_from<typename L::configuration_t>(c,0);} static Cfg read(const typename L::configuration_t&k){Cfg c; vec_to(c,k); return c;} };
// ---- is this layer a storage order directly over array? then it is the "storage sub-stack"
template <typename B> struct is_array : std::false_type{}; template <typename V, typename I> struct is_array<backend::array<V,I>> : std::true_type{};
template <typename B, bool init=B::is_initial> struct is_store : std::false_type{};
template <typename B> struct is_store<B,false> : is_array<typename B::backend_t>{};
// ---- find storage sub-stack type
template <typename B, bool st=is_store<B>::value, bool init=B::is_initial> struct store_of { using type = typename store_of<typename B::backend_t>::type; };
template <typename B, bool i> struct store_of<B,true,i>{ using type=B; };
template <typename B> struct store_of<B,false,true>{ using type=void; };
// ---- build a tuple (conf_0,...,inner) recursively, then make_parameter_pack
template <typename B> auto pack_tuple(const std::vector<Cfg>& cfgs, size_t k, const void* store){
  if constexpr (is_store<B>::value) { return std::make_tuple(typename B::owning_data_t(*static_cast<const typename B::owning_data_t*>(store))); }
  else if constexpr (B::is_initial) { return std::make_tuple(LT<B>::make(cfgs[k])); }
  else { return std::tuple_cat(std::make_tuple(LT<B>::make(cfgs[k])), pack_tuple<typename B::backend_t>(cfgs,k+1,store)); } }
template <typename B> field<B> build(const std::vector<Cfg>& cfgs, const void* store){ return std::apply([](auto&&... a){ return field<B>(make_parameter_pack(std::move(a)...)); }, pack_tuple<B>(cfgs,0,store)); }
// ---- read configs back through public accessors
template <typename B> void read_cfgs(const typename B::owning_data_t& o, std::vector<Cfg>& out){ out.push_back(LT<B>::read(o.get_configuration())); if constexpr(!B::is_initial) read_cfgs<typename B::backend_t>(o.get_backend(), out); }
// ---- type-erased
struct IField { virtual ~IField(){} virtual std::vector<ld> at(const std::vector<ld>&)=0; virtual std::string dump()=0; virtual std::vector<Cfg> cfgs()=0; };
template <typename B> struct FieldImpl : IField { field<B> f; FieldImpl(field<B>&& g):f(std::move(g)){}
  std::vector<ld> at(const std::vector<ld>& c) override { typename field<B>::view_t v(f); typename field<B>::coordinate_t cc; for(size_t i=0;i<c.size();i++) cc[i]=(typename B::contravariant_input_t::scalar_t)c[i]; auto&& r=v.at(cc); std::vector<ld> o; for(size_t j=0;j<B::covariant_output_t::dimensions;j++) o.push_back((ld)r[j]); return o; }
  std::string dump() override { std::stringstream ss; f.dump(ss); return ss.str(); }
  std::vector<Cfg> cfgs() override { std::vector<Cfg> o; read_cfgs<B>(f.backend(), o); return o; } };
template <typename B> std::unique_ptr<IField> make_field(const std::vector<Cfg>& cfgs, const std::vector<size_t>& ext, const std::vector<ld>& data){
  using St = typename store_of<B>::type;
  if constexpr (std::is_void_v<St>) { return std::make_unique<FieldImpl<B>>(build<B>(cfgs,nullptr)); }
  else { // build storage via strided builder with same dims then convert
    constexpr size_t N=St::contravariant_input_t::dimensions; constexpr size_t M=St::covariant_output_t::dimensions;
    using SB = backend::strided<vector::vector_d<std::size_t,N>, typename St::backend_t>; typename SB::configuration_t e; for(size_t i=0;i<N;i++) e[i]=ext[i];
    field<SB> sb(make_parameter_pack(e)); { typename field<SB>::view_t v(sb); size_t k=0; utility::nd_map<typename SB::configuration_t>([&](typename SB::configuration_t t){ auto& r=v.at(t); for(size_t j=0;j<M;j++) r[j]=(typename St::covariant_output_t::scalar_t)data[k++]; }, e); }
    field<St> st(sb); return std::make_unique<FieldImpl<B>>(build<B>(cfgs,&st.backend())); } }
// ---- demo
using A = backend::array<vector::float1>;
using Z1 = backend::affine<backend::linear<backend::clamp<backend::morton<vector::size3, A, false>>>>;
using Z2 = backend::backup<backend::shuffle<backend::covariant_cast<double, backend::strided<vector::size2, backend::array<vector::float3>>>, std::index_sequence<1,0>>>;
using Z3 = backend::clamp<backend::affine<backend::constant<vector::double2, vector::float3>>>;
int main(){ setvbuf(stdout,0,_IONBF,0);
  { std::vector<Cfg> c={ {1,0,0,0.25, 0,1,0,0, 0,0,2,0}, {}, {0,0,0, 1,2,1}, {} }; std::vector<ld> data; for(int i=0;i<2*3*2;i++) data.push_back(i*4);
    auto f=make_field<Z1>(c,{2,3,2},data); auto r=f->at({0.25,1.0,0.25}); printf("Z1 at = %Lf (expect: x=.5,y=1,z=.5 -> avg of A[0,1,0],A[0,1,1],A[1,1,0],A[1,1,1] = (8+12+32+36)/4=22)\n", r[0]); auto k=f->cfgs(); printf("Z1 cfg layers=%zu affine[3]=%Lf clamp max=%Lf,%Lf,%Lf morton=%Lf,%Lf,%Lf dump=%zu\n", k.size(), k[0][3], k[2][3],k[2][4],k[2][5], k[3][0],k[3][1],k[3][2], f->dump().size()); }
  { std::vector<Cfg> c={ {0,0, 2,1, -1,-2,-3}, {}, {}, {} }; std::vector<ld> data; for(int i=0;i<2*3*3;i++) data.push_back(i);
    auto f=make_field<Z2>(c,{2,3},data); auto r=f->at({2,1}); printf("Z2 at(2,1) -> shuffled (1,2) = %Lf %Lf %Lf (expect 15 16 17)\n", r[0],r[1],r[2]); r=f->at({3,1}); printf("Z2 at(3,1) = %Lf %Lf %Lf (expect default -1 -2 -3)\n", r[0],r[1],r[2]); }
  { std::vector<Cfg> c={ {0,0, 1,1}, {1,0,0, 0,1,0}, {7,8,9} }; auto f=make_field<Z3>(c,{},{}); auto r=f->at({5,5}); printf("Z3 = %Lf %Lf %Lf dump=%zu\n", r[0],r[1],r[2], f->dump().size()); }
}
